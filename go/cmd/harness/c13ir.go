package main

// C13IR: the functional tie of the extended generated IR program (lean/SMGo/Gen/CTIRProgProto.lean, driver command
// `ctirproto.run`, oracle lean/SMGo/Model/CTIRProto.lean), which the refinement theorems of the protocol entry
// points (lean/SMGo/Props/C13IR.lean) take as the meaning of the Go code: sm2.VerifyHashed (with
// (*SM2Point).SetBytes, Sm2CheckOnCurve, ScalarMixedMult_Unsafe, Bytes_Unsafe, GetAffineX_Unsafe, ensure32Bytes)
// and sm2.ZA against the real functions.  An error value is the integer 1 in the IR.
import (
	"crypto/rand"
	"fmt"
	"math/big"
	"strings"

	"github.com/bilibili/smgo/sm2"
)

func runC13IR(c *Ctx) {
	c.res.Rule = "ctirproto.run vs implementation: VerifyHashed on valid signatures, tampered r/s/e/public key, r or s in {0, n, n-1}, r+s=n, wrong lengths, public key off the curve (class = outcome); ZA on identifiers of length 0..8192; Sign / SignZa / Verify / VerifyZa on (id, message) cases incl. a rejected nonce, a tampered message, an identifier that is too long; CheckOnCurve on/off curve, short, out of range"
	check := func(fn, class string, args []string, impl string) {
		req := "ctirproto.run " + fn + " " + strings.Join(args, " ")
		c.Case("ctirproto.run", class, false, req)
		model := c.drv.Ask(req)
		if model != impl && !(impl == "panic" && model == "stuck") {
			c.Disagree(Disagreement{Kind: "impl!=model", Class: class, Request: req, Impl: impl, Model: model, Stream: "ctirproto.run"})
		}
	}
	verify := func(class string, px, py, e, r, s []byte) {
		impl := try(func() string {
			ok, err := sm2.VerifyHashed(px, py, e, r, s)
			b := 0
			if ok {
				b = 1
			}
			if err != nil {
				return fmt.Sprintf("ok %d 1", b)
			}
			return fmt.Sprintf("ok %d 0", b)
		})
		check("sm2.VerifyHashed", "verify/"+class+"/"+impl, []string{vBytes(px), vBytes(py), vBytes(e), vBytes(r), vBytes(s)}, impl)
	}
	za := func(class string, id, px, py []byte) {
		impl := try(func() string {
			z, err := sm2.ZA(id, px, py)
			if err != nil {
				return "ok " + vList(z) + " 1"
			}
			return "ok " + vList(z) + " 0"
		})
		check("sm2.ZA", "za/"+class, []string{vBytes(id), vBytes(px), vBytes(py)}, impl)
	}
	reps := 2
	if c.tier == "thorough" {
		reps = 12
	}
	nm1 := new(big.Int).Sub(curveN, big.NewInt(1))
	for i := 0; i < reps; i++ {
		priv, px, py, err := sm2.GenerateKey(rand.Reader)
		if err != nil {
			continue
		}
		e := c.rng.Bytes(32)
		r, s, err := sm2.SignHashed(rand.Reader, priv, e)
		if err != nil {
			continue
		}
		verify("valid", px, py, e, r, s)
		flip := func(b []byte) []byte {
			o := append([]byte{}, b...)
			o[c.rng.Intn(len(o))] ^= 1 << uint(c.rng.Intn(8))
			return o
		}
		verify("tamper-e", px, py, flip(e), r, s)
		verify("tamper-r", px, py, e, flip(r), s)
		if i == 0 {
			verify("tamper-s", px, py, e, r, flip(s))
			verify("tamper-pub", px, flip(py), e, r, s)
			verify("r=0", px, py, e, make([]byte, 32), s)
			verify("s=0", px, py, e, r, make([]byte, 32))
			verify("r=n", px, py, e, be32(curveN), s)
			verify("s=n-1", px, py, e, r, be32(nm1))
			// r + s = n
			rs := new(big.Int).Sub(curveN, new(big.Int).SetBytes(r))
			verify("r+s=n", px, py, e, r, be32(rs))
			verify("len", px[:31], py, e, r, s)
			verify("len", px, py, e, r, append([]byte{0}, s...))
			verify("pub=0", make([]byte, 32), make([]byte, 32), e, r, s)
		}
	}
	// Sign / SignZa / Verify / VerifyZa / CheckOnCurve (functions 108–112): the reader is the public handle 1; what it
	// delivers is the driver's tape, 32 bytes per read (a rejected all-ones nonce first in the second case)
	ff := make([]byte, 32)
	for i := range ff {
		ff[i] = 0xff
	}
	for i := 0; i < 2; i++ {
		priv, gx, gy, err := sm2.GenerateKey(rand.Reader)
		if err != nil {
			continue
		}
		id := []byte("1234567812345678")[:16-5*i]
		msg := c.rng.Bytes(10 + 60*i)
		nonces := [][]byte{c.rng.Bytes(32)}
		nonces[0][0] &= 0x7f
		if i == 1 {
			nonces = [][]byte{ff, nonces[0]}
		}
		r, s, err := sm2.Sign(id, gx, gy, &scriptReader{items: dataScript(nonces...)}, priv, msg)
		check("sm2.Sign", "sign", []string{vTape(nonces...), vBytes(id), vBytes(gx), vBytes(gy), "1", vBytes(priv), vBytes(msg)}, "ok "+vInts(r)+" "+vInts(s)+" "+errFlag(err))
		vimpl := func(ok bool, err error) string {
			b := 0
			if ok {
				b = 1
			}
			if err != nil {
				return fmt.Sprintf("ok %d 1", b)
			}
			return fmt.Sprintf("ok %d 0", b)
		}
		ok, verr := sm2.Verify(id, gx, gy, msg, r, s)
		check("sm2.Verify", "verify/valid", []string{vBytes(id), vBytes(gx), vBytes(gy), vBytes(msg), vBytes(r), vBytes(s)}, vimpl(ok, verr))
		if i == 0 {
			bad := append([]byte{}, msg...)
			bad[0] ^= 1
			ok, verr = sm2.Verify(id, gx, gy, bad, r, s)
			check("sm2.Verify", "verify/tamper-msg", []string{vBytes(id), vBytes(gx), vBytes(gy), vBytes(bad), vBytes(r), vBytes(s)}, vimpl(ok, verr))
			zaB, _ := sm2.ZA(id, gx, gy)
			r2, s2, err := sm2.SignZa(&scriptReader{items: dataScript(nonces...)}, priv, zaB, msg)
			check("sm2.SignZa", "signza", []string{vTape(nonces...), "1", vBytes(priv), vBytes(zaB), vBytes(msg)}, "ok "+vInts(r2)+" "+vInts(s2)+" "+errFlag(err))
			ok, verr = sm2.VerifyZa(gx, gy, zaB, msg, r2, s2)
			check("sm2.VerifyZa", "verifyza", []string{vBytes(gx), vBytes(gy), vBytes(zaB), vBytes(msg), vBytes(r2), vBytes(s2)}, vimpl(ok, verr))
			long := make([]byte, 8192)
			r3, s3, err := sm2.Sign(long, gx, gy, &scriptReader{items: dataScript(nonces...)}, priv, msg)
			check("sm2.Sign", "sign/id-too-long", []string{vTape(nonces...), vBytes(long), vBytes(gx), vBytes(gy), "1", vBytes(priv), vBytes(msg)}, "ok "+vInts(r3)+" "+vInts(s3)+" "+errFlag(err))
		}
		b2i := func(b bool) string {
			if b {
				return "ok 1"
			}
			return "ok 0"
		}
		check("sm2.CheckOnCurve", "oncurve", []string{vBytes(gx), vBytes(gy)}, b2i(sm2.CheckOnCurve(gx, gy)))
		off := append([]byte{}, gy...)
		off[31] ^= 1
		check("sm2.CheckOnCurve", "offcurve", []string{vBytes(gx), vBytes(off)}, b2i(sm2.CheckOnCurve(gx, off)))
		check("sm2.CheckOnCurve", "short", []string{vBytes(gx[:31]), vBytes(gy)}, b2i(sm2.CheckOnCurve(gx[:31], gy)))
		check("sm2.CheckOnCurve", "range", []string{vBytes(ff), vBytes(gy)}, b2i(sm2.CheckOnCurve(ff, gy)))
	}
	px, py := c.rng.Bytes(32), c.rng.Bytes(32)
	for _, n := range []int{0, 1, 16, 55, 56, 64, 200, 8191, 8192} {
		za(fmt.Sprintf("len%d", n), c.rng.Bytes(n), px, py)
	}
	za("short-pub", []byte("1234567812345678"), px[:5], nil)
}

func vList(b []byte) string {
	parts := make([]string, len(b))
	for i, x := range b {
		parts[i] = fmt.Sprint(x)
	}
	return "[" + strings.Join(parts, ",") + "]"
}

func init() { runners["C13IR"] = runC13IR }
