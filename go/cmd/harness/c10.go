package main

import (
	"bytes"
	"fmt"
	"unsafe"

	"github.com/bilibili/smgo/sm2"
	"github.com/bilibili/smgo/sm3"
	"github.com/bilibili/smgo/sm4"
)

func sameArray(a, b []byte) bool {
	if cap(a) == 0 || cap(b) == 0 {
		return false
	}
	return unsafe.Pointer(&a[:1][0]) == unsafe.Pointer(&b[:1][0])
}

// dataPtr is the pointer word of a slice header (unsafe.SliceData needs go1.20 language level)
func dataPtr(b []byte) unsafe.Pointer { return *(*unsafe.Pointer)(unsafe.Pointer(&b)) }

func runC10(c *Ctx) {
	c.res.Rule = "Seal/Open on every path with dst of (len, cap) in {0,1,7,16,17} x {len, len+n-1, len+n, len+n+5}, dst = nil, dst = empty non-nil, dst = in[:0] (in-place) with and without spare capacity, every length class; every call is made twice on the same buffers; the implementation's view (returned bytes, result shares dst's pointer, any byte of key/nonce/aad/input/dst-up-to-capacity changed outside the appended region) is compared three-way with the Go glue run on the Lean slice heap (gcm.sealglue/gcm.openglue) and with the AEAD contract written over the specification (…glue.spec), and with crypto/cipher's generic GCM; failing Opens (tampered, shorter than the tag) and wrong nonce lengths (panic) on the same shapes; SM3 Sum(in) with spare capacity against the specification and the slice model; SM2 entry points leave their inputs unchanged; class = (operation, path, dst shape, length class, variant, call number)"
	paths := gcmPaths()
	lens := []int{0, 1, 15, 16, 17, 33, 64, 100, 257, 300}
	if c.tier == "thorough" {
		lens = append(lens, 31, 32, 63, 65, 127, 128, 129, 255, 256, 511, 512, 513, 1000, 1100)
	}
	type dstShape struct {
		name     string
		l, extra int // extra capacity relative to the need: -1 => cap = len+n-1
		kind     string
	}
	var shapes []dstShape
	for _, l := range []int{0, 1, 7, 16, 17} {
		for _, e := range []int{-1000, -1, 0, 5} {
			shapes = append(shapes, dstShape{fmt.Sprintf("len%d/cap%+d", l, e), l, e, "plain"})
		}
	}
	shapes = append(shapes, dstShape{"nil", 0, 0, "nil"}, dstShape{"empty-nonnil", 0, -1000, "plain"}, dstShape{"inplace/nospare", 0, 0, "inplace-tight"}, dstShape{"inplace/spare", 0, 0, "inplace-spare"})
	hx := func(b []byte) string {
		if len(b) == 0 {
			return "-"
		}
		return fmt.Sprintf("%x", b)
	}
	// one call shape; variant "" = honest call, "tamper" = one ciphertext/tag bit flipped (Open),
	// "short" = ciphertext shorter than the tag (Open), "badnonce" = nonce one byte too long
	runCase := func(p gcmPath, pl int, sh dstShape, op, variant string) {
		ts := 12 + (pl+sh.l)%5
		key, nonce, aad, pt := c.rng.Bytes(16), c.rng.Bytes(12), c.rng.Bytes(c.rng.Intn(40)), c.rng.Bytes(pl)
		a, err := p.mk(key, 12, ts)
		if a == nil || err != nil {
			return
		}
		ref, _ := paths[len(paths)-1].mk(key, 12, ts)
		ct := ref.Seal(nil, nonce, pt, aad)
		in := pt
		n := pl + ts
		want := ct
		if op == "open" {
			in = ct
			n = pl
			want = pt
		}
		expect := ""
		switch variant {
		case "tamper":
			in = append([]byte(nil), in...)
			in[c.rng.Intn(len(in))] ^= 1 << uint(c.rng.Intn(8))
			expect = "err"
		case "short":
			in = in[:c.rng.Intn(ts)]
			n = 0
			expect = "err"
		case "badnonce":
			nonce = append(nonce, 7)
			expect = "panic"
		}
		// build the input buffer and dst
		var inBuf, dst []byte
		prefix := c.rng.Bytes(sh.l)
		switch sh.kind {
		case "nil":
			inBuf = append([]byte(nil), in...)
			dst = nil
		case "inplace-tight":
			inBuf = append(make([]byte, 0, len(in)), in...)
			dst = inBuf[:0]
		case "inplace-spare":
			inBuf = append(make([]byte, 0, len(in)+ts+8), in...)
			dst = inBuf[:0]
		default:
			inBuf = append([]byte(nil), in...)
			capd := sh.l + n + sh.extra
			if sh.extra == -1000 || capd < sh.l {
				capd = sh.l
			}
			dst = append(make([]byte, 0, capd), prefix...)
		}
		inplace := sh.kind == "inplace-tight" || sh.kind == "inplace-spare"
		cl := fmt.Sprintf("%s/%s/%s/%s", op, p.name, sh.name, lenClass(pl))
		if variant != "" {
			cl += "/" + variant
		}
		args := fmt.Sprintf("%s %s %s %s %d %d %d %s %s 12", hx(key), hx(nonce), hx(aad), hx(in), ts, len(dst), cap(dst), sh.kind, hx(dst))
		req := fmt.Sprintf("gcm.%sglue %s", op, args)
		if p.name == "arm64-glue" {
			// the arm64 path is Go glue around kernels: its own model (Model/GCMGlueArm64.lean), statement by statement
			req = fmt.Sprintf("gcm.%sglue.a64 %s", op, args)
		}
		specReq := fmt.Sprintf("gcm.%sglue.spec %s", op, args)
		if expect == "" {
			expect = fmt.Sprintf("ok %x", append(append([]byte(nil), dst...), want...))
		}
		for round := 1; round <= 2; round++ {
			if inplace && round == 2 && variant == "" {
				break // the input was legitimately overwritten by the first call
			}
			// everything the caller can see, up to the capacities, before this call
			inFull, dstFull := inBuf[:cap(inBuf)], dst[:cap(dst)]
			snapKey, snapNonce, snapAad := append([]byte(nil), key...), append([]byte(nil), nonce...), append([]byte(nil), aad...)
			snapIn, snapDst := append([]byte(nil), inFull...), append([]byte(nil), dstFull...)
			var out []byte
			impl := try(func() string {
				if op == "seal" {
					out = a.Seal(dst, nonce, inBuf, aad)
				} else {
					var err error
					out, err = a.Open(dst, nonce, inBuf, aad)
					if err != nil {
						return "err"
					}
				}
				return fmt.Sprintf("ok %x", out)
			})
			c.Case("gcm.buffers", cl, false, req)
			if impl != expect {
				c.Disagree(Disagreement{Kind: "impl!=spec", Class: fmt.Sprintf("%s/result/call%d", cl, round), Request: req, Impl: impl, Spec: expect, Stream: "gcm.buffers"})
				break
			}
			// the implementation's view in the format of the model: returned bytes, pointer shared
			// with dst, and whether any byte visible to the caller changed outside the appended
			// region ret[len(dst) : len(dst)+n] (inputs, dst's prefix, dst's remaining capacity)
			shares := dst != nil && out != nil && dataPtr(out) == dataPtr(dst)
			view := impl
			if impl != "panic" {
				lo, hi := 0, 0 // the appended region, as indices into dst's array
				if impl != "err" && shares {
					lo, hi = len(dst), len(out)
				}
				same := bytes.Equal(key, snapKey) && bytes.Equal(nonce, snapNonce) && bytes.Equal(aad, snapAad)
				for i := range dstFull {
					if (i < lo || i >= hi) && dstFull[i] != snapDst[i] {
						same = false
					}
				}
				for i := range inFull {
					if inplace && i >= lo && i < hi {
						continue // dst and the input are the same array from the same address on
					}
					if inFull[i] != snapIn[i] {
						same = false
					}
				}
				inputs := "inputs=unchanged"
				if !same {
					inputs = "inputs=changed"
				}
				if impl == "err" {
					view = "err " + inputs
				} else {
					view = fmt.Sprintf("ok %s shares=%v %s", hx(out), shares, inputs)
				}
			}
			if !c.Check3("gcm.buffers", fmt.Sprintf("%s/call%d", cl, round), req, specReq, view) {
				break
			}
		}
	}
	for _, p := range paths {
		for _, pl := range lens {
			for _, sh := range shapes {
				for _, op := range []string{"seal", "open"} {
					runCase(p, pl, sh, op, "")
				}
			}
		}
	}
	// failing and panicking calls: nothing may change, whatever dst looks like
	for _, p := range paths {
		for _, pl := range []int{0, 1, 16, 33, 100, 257} {
			for _, sh := range shapes {
				if sh.l != 0 && sh.l != 7 {
					continue
				}
				inplace := sh.kind == "inplace-tight" || sh.kind == "inplace-spare"
				if !(inplace && p.name == "stdlib-generic") {
					// crypto/cipher's own GCM wipes the would-be output region on a failed Open, which
					// the AEAD contract permits ("the contents of dst, up to its capacity, may be
					// overwritten"); with dst = ciphertext[:0] that region is the ciphertext itself
					runCase(p, pl, sh, "open", "tamper")
				}
				runCase(p, pl, sh, "open", "short")
				runCase(p, pl, sh, "seal", "badnonce")
				runCase(p, pl, sh, "open", "badnonce")
			}
		}
	}
	// SM3 Sum appends
	for _, l := range []int{0, 1, 55, 64, 100} {
		for _, sh := range []struct{ l, extra int }{{0, 0}, {0, 40}, {5, 0}, {5, 31}, {5, 32}, {5, 40}} {
			h := sm3.New()
			msg := c.rng.Bytes(l)
			h.Write(msg)
			in := append(make([]byte, 0, sh.l+sh.extra), c.rng.Bytes(sh.l)...)
			snap := append([]byte(nil), in...)
			out1 := h.Sum(in)
			out2 := h.Sum(in)
			cl := fmt.Sprintf("sm3.sum/len%d/cap+%d", sh.l, sh.extra)
			req := fmt.Sprintf("sm3.hist W:%x S:%x", msg, in)
			c.Case("sm3.sum", cl, false, req)
			c.CheckSpec("sm3.sum", cl, req, "sm3.spechist"+req[len("sm3.hist"):], fmt.Sprintf("n=%d | sum=%x", l, out1))
			if !bytes.Equal(out1, out2) || !bytes.Equal(in, snap) || (sh.extra >= 32) != sameArray(out1, in) && cap(in) > 0 {
				c.Disagree(Disagreement{Kind: "impl!=spec", Class: cl + "/append-contract", Request: req, Impl: fmt.Sprintf("%x / %x shares=%v", out1, out2, sameArray(out1, in)), Spec: "equal, in unchanged", Stream: "sm3.sum"})
			}
			// the same call on the slice model (append on the heap), in the model's format
			inFull := in[:cap(in)]
			same := bytes.Equal(in, snap)
			shares := dataPtr(out1) == dataPtr(in)
			for i := len(in); i < len(inFull); i++ {
				if !(shares && i < len(out1)) && inFull[i] != 0 {
					same = false // the capacity was zero-filled by make
				}
			}
			view := fmt.Sprintf("ok %s shares=%v inputs=%s again=%s", hx(out1), shares, map[bool]string{true: "unchanged", false: "changed"}[same], map[bool]string{true: "same", false: "different"}[bytes.Equal(out1, out2)])
			c.CheckModel("sm3.sum", cl+"/slice-model", fmt.Sprintf("sm3.sumglue %s %s %d", hx(msg), hx(in), cap(in)), view)
		}
	}
	// every input handed over as a SUB-SLICE of one record with spare capacity behind it (an `append` into an
	// argument would land in the neighbouring field): the whole record must be unchanged afterwards
	for it := 0; it < 6; it++ {
		kp := randKey(c)
		id, msg := c.rng.Bytes(16+it), c.rng.Bytes(40+7*it)
		k := randK(c)
		r0, s0, _ := sm2.Sign(id, kp.px, kp.py, &scriptReader{items: dataScript(be32(k))}, kp.priv, msg)
		// layout: px | r | s | py | id | msg | priv | e | pad     (px is followed by r so that px[:32] has r in its capacity)
		e := c.rng.Bytes(32)
		var rec []byte
		off := map[string][2]int{}
		add := func(name string, b []byte) {
			off[name] = [2]int{len(rec), len(rec) + len(b)}
			rec = append(rec, b...)
		}
		add("px", kp.px)
		add("r", r0)
		add("s", s0)
		add("py", kp.py)
		add("id", id)
		add("msg", msg)
		add("priv", kp.priv)
		add("e", e)
		rec = append(rec, c.rng.Bytes(64)...)
		sl := func(name string) []byte { o := off[name]; return rec[o[0]:o[1]] } // cap reaches to the end of rec
		snap := append([]byte(nil), rec...)
		ops := []struct {
			name string
			f    func()
		}{
			{"ZA", func() { sm2.ZA(sl("id"), sl("px"), sl("py")) }},
			{"Verify", func() { sm2.Verify(sl("id"), sl("px"), sl("py"), sl("msg"), sl("r"), sl("s")) }},
			{"VerifyHashed", func() { sm2.VerifyHashed(sl("px"), sl("py"), sl("e"), sl("r"), sl("s")) }},
			{"Sign", func() {
				sm2.Sign(sl("id"), sl("px"), sl("py"), &scriptReader{items: dataScript(be32(k))}, sl("priv"), sl("msg"))
			}},
			{"SignHashed", func() { sm2.SignHashed(&scriptReader{items: dataScript(be32(k))}, sl("priv"), sl("e")) }},
			{"DerivePublic", func() { sm2.DerivePublic(sl("priv")) }},
			{"CheckOnCurve", func() { sm2.CheckOnCurve(sl("px"), sl("py")) }},
			{"TestPrivateKey", func() { sm2.TestPrivateKey(sl("priv")) }},
			{"SM3.Write", func() { h := sm3.New(); h.Write(sl("id")); h.Write(sl("msg")); h.Sum(nil) }},
			{"SumSM3", func() { sm3.SumSM3(sl("msg")) }},
		}
		for _, op := range ops {
			res := try(func() string { op.f(); return "ok" })
			cl := "subslice-inputs/" + op.name
			req := fmt.Sprintf("sm2/sm3 %s on sub-slices of one record (px|r|s|py|id|msg|priv|e|pad), it=%d", op.name, it)
			c.Case("inputs.record", cl, false, req)
			if res != "ok" || !bytes.Equal(rec, snap) {
				i := 0
				for i < len(rec) && rec[i] == snap[i] {
					i++
				}
				c.Disagree(Disagreement{Kind: "impl!=spec", Class: cl + "/record-modified", Request: req, Impl: fmt.Sprintf("%s; first modified byte at offset %d of the record", res, i), Spec: "record unchanged", Stream: "inputs.record"})
				copy(rec, snap)
			}
		}
		// and the verification still succeeds on the untouched record
		if ok, _ := sm2.Verify(sl("id"), sl("px"), sl("py"), sl("msg"), sl("r"), sl("s")); !ok {
			c.Disagree(Disagreement{Kind: "impl!=spec", Class: "subslice-inputs/verify-after", Request: "verify on record", Impl: "false", Spec: "true", Stream: "inputs.record"})
		}
	}
	// SM4: key and blocks as sub-slices with spare capacity
	asmOK0 := sm4.VerifCandoAsm()
	for _, accel := range []bool{true, false} {
		rec := c.rng.Bytes(16 + 16 + 64)
		snap := append([]byte(nil), rec...)
		sm4.VerifSetCandoAsm(accel && asmOK0)
		blk, err := sm4.NewCipher(rec[0:16])
		sm4.VerifSetCandoAsm(asmOK0)
		cl := fmt.Sprintf("subslice-inputs/sm4/accel=%v", accel)
		c.Case("inputs.record", cl, false, "sm4 NewCipher/Encrypt on sub-slices")
		if err == nil {
			out := make([]byte, 16)
			blk.Encrypt(out, rec[16:32])
			blk.Decrypt(out, rec[16:32])
		}
		if !bytes.Equal(rec, snap) {
			c.Disagree(Disagreement{Kind: "impl!=spec", Class: cl + "/record-modified", Request: "sm4 on record", Impl: "modified", Spec: "unchanged", Stream: "inputs.record"})
		}
	}
	// SM2 entry points do not modify their inputs; repeated calls agree
	for it := 0; it < 4; it++ {
		kp := randKey(c)
		id, msg := c.rng.Bytes(16), c.rng.Bytes(50+it)
		snap := func() string { return fmt.Sprintf("%x|%x|%x|%x|%x", kp.priv, kp.px, kp.py, id, msg) }
		before := snap()
		script := dataScript(be32(randK(c)))
		r, s, err := sm2.Sign(id, kp.px, kp.py, &scriptReader{items: cloneScript(script)}, kp.priv, msg)
		r2, s2, _ := sm2.Sign(id, kp.px, kp.py, &scriptReader{items: cloneScript(script)}, kp.priv, msg)
		sigSnap := fmt.Sprintf("%x|%x", r, s)
		ok1, _ := sm2.Verify(id, kp.px, kp.py, msg, r, s)
		ok2, _ := sm2.Verify(id, kp.px, kp.py, msg, r, s)
		sm2.DerivePublic(kp.priv)
		sm2.CheckOnCurve(kp.px, kp.py)
		c.Case("sm2.inputs", "sign-verify-twice", false, "sm2 inputs "+before)
		if err != nil || snap() != before || fmt.Sprintf("%x|%x", r, s) != sigSnap || !bytes.Equal(r, r2) || !bytes.Equal(s, s2) || !ok1 || !ok2 {
			c.Disagree(Disagreement{Kind: "impl!=spec", Class: "sm2/inputs-modified-or-unstable", Request: before, Impl: snap() + " " + sigSnap, Spec: before, Stream: "sm2.inputs"})
		}
	}
	runSM4Wrap(c) // Block.Encrypt/Decrypt on overlapping sub-slices of one buffer (sm4wrap.go, Props/C05Wrap.lean)
}

func init() { runners["C10"] = runC10 }
