package main

import (
	"encoding/binary"
	"fmt"
	"strings"

	"github.com/bilibili/smgo/sm2"
	"github.com/bilibili/smgo/sm4"
)

func u32hex(w []uint32) string {
	b := make([]byte, 4*len(w))
	for i, x := range w {
		binary.BigEndian.PutUint32(b[4*i:], x)
	}
	return fmt.Sprintf("%x", b)
}

func runC18(c *Ctx) {
	c.res.Rule = "live read-back: every table the running library holds (SM4 sbox, s0..s3, ck, fk; all seven SM2 base-point tables; n; zBytes) is dumped through the hooks and compared byte for byte with what the translators emitted into lean/SMGo/Gen (the data the kernel-checked theorems are about); this catches a translator that skipped or mangled an entry. The SM3 table is unexported and has no hook: it is exercised through C04. exhaustive over the finite table space."
	sb, t0, t1, t2, t3, ck, fk := sm4.VerifTables()
	cmp := func(name, live string) {
		gen := c.drv.Ask("gen.dump " + name)
		c.Case("gen.readback", name, false, fmt.Sprintf("gen.dump %s (%d bytes)", name, len(live)/2))
		// the table the published derivation gives, computed by the specification (the failing-input search:
		// names the first wrong entry when a table was altered)
		if spec := c.drv.Ask("spec.table " + name); spec != live {
			i := 0
			for i < len(spec) && i < len(live) && spec[i] == live[i] {
				i++
			}
			c.Disagree(Disagreement{Kind: "impl!=spec", Class: name, Request: "spec.table " + name, SpecReq: "spec.table " + name, Impl: fmt.Sprintf("live table differs from its derivation at byte offset %d: live …%s", i/2, clip(live, i-i%2)), Spec: fmt.Sprintf("derived …%s", clip(spec, i-i%2)), Stream: "gen.readback"})
		}
		if gen != live {
			i := 0
			for i < len(gen) && i < len(live) && gen[i] == live[i] {
				i++
			}
			c.Disagree(Disagreement{Kind: "impl!=model", Class: name, Request: "gen.dump " + name, Impl: fmt.Sprintf("first difference at hex offset %d: live …%s", i, clip(live, i)), Model: fmt.Sprintf("generated …%s", clip(gen, i)), Stream: "gen.readback"})
		}
	}
	cmp("sm4.sbox", fmt.Sprintf("%x", sb[:]))
	cmp("sm4.s0", u32hex(t0[:]))
	cmp("sm4.s1", u32hex(t1[:]))
	cmp("sm4.s2", u32hex(t2[:]))
	cmp("sm4.s3", u32hex(t3[:]))
	cmp("sm4.ck", u32hex(ck[:]))
	cmp("sm4.fk", u32hex(fk[:]))
	three, two := sm2.VerifTables()
	limbs := func(sbd *strings.Builder, l *[4]uint64) {
		for _, v := range l {
			fmt.Fprintf(sbd, "%016x", v)
		}
	}
	for name, t := range three {
		var s strings.Builder
		for _, sub := range t {
			for _, coord := range sub {
				for _, e := range coord {
					limbs(&s, e)
				}
			}
		}
		cmp(name, s.String())
	}
	for name, t := range two {
		var s strings.Builder
		for _, coord := range t {
			for _, e := range coord {
				limbs(&s, e)
			}
		}
		cmp(name, s.String())
	}
	cmp("sm2.N", fmt.Sprintf("%064x", sm2.VerifGetN()))
	cmp("sm2.zBytes", fmt.Sprintf("%x", sm2.VerifGetZBytes()))
}

func clip(s string, i int) string {
	if i > len(s) {
		i = len(s)
	}
	j := i + 32
	if j > len(s) {
		j = len(s)
	}
	return s[i:j]
}

func init() { runners["C18"] = runC18 }
