package main

import (
	"fmt"
	"strings"

	"github.com/bilibili/smgo/sm2"
	"github.com/bilibili/smgo/sm3"
)

// implFromRequest re-runs the real code from a self-contained request line.  ok=false when the
// request kind has no generic re-runner (then only model and specification are re-asked).
func implFromRequest(req string) (impl string, ok bool) {
	f := strings.Fields(req)
	if len(f) == 0 {
		return "", false
	}
	b := func(i int) []byte { return parseHexNil(f[i]) }
	switch f[0] {
	case "cmp":
		var l int
		fmt.Sscan(f[3], &l)
		return implCmp(b(1), b(2), l), true
	case "naf":
		var n, w int
		ol := -1
		if f[1] != "nil" {
			fmt.Sscan(f[1], &ol)
		}
		fmt.Sscan(f[3], &n)
		fmt.Sscan(f[4], &w)
		return implNaf(ol, b(2), n, w), true
	case "sm3.hist":
		return sm3Impl(parseSM3Ops(req)), true
	case "sm3.sum":
		m := b(1)
		return try(func() string { x := sm3.SumSM3(m); return fmt.Sprintf("%x", x[:]) }), true
	case "sm2.sign", "sm2.sign.fiat":
		return implSignHashed(parseScript(f[3]), b(1), b(2)), true
	case "sm2.verify", "sm2.verify.fiat":
		return implVerifyHashed(b(1), b(2), b(3), b(4), b(5)), true
	case "sm2.genkey":
		if f[1] == "nil" {
			return implGenKey(nil, true), true
		}
		return implGenKey(parseScript(f[1]), false), true
	case "sm2.derive", "sm2.derive.fiat":
		return implDerive(b(1)), true
	case "sm2.testkey":
		k := b(1)
		return try(func() string { return fmt.Sprintf("ok %d", sm2.TestPrivateKey(k)) }), true
	case "sm2.oncurve":
		x, y := b(1), b(2)
		return try(func() string { return fmt.Sprintf("ok %v", sm2.CheckOnCurve(x, y)) }), true
	case "sm2.za":
		id, px, py := b(1), b(2), b(3)
		return try(func() string {
			z, err := sm2.ZA(id, px, py)
			if err != nil {
				return "err"
			}
			return fmt.Sprintf("ok %x", z)
		}), true
	case "sm2.signid":
		id, px, py, priv, msg := b(1), b(2), b(3), b(4), b(5)
		sc := parseScript(f[6])
		return try(func() string {
			rd := &scriptReader{items: cloneScript(sc)}
			r, s, err := sm2.Sign(id, px, py, rd, priv, msg)
			if err != nil {
				return "err"
			}
			return fmt.Sprintf("ok %x %x %d", r, s, rd.consumed)
		}), true
	case "sm2.verifyid":
		id, px, py, msg, r, s := b(1), b(2), b(3), b(4), b(5), b(6)
		return try(func() string { ok, _ := sm2.Verify(id, px, py, msg, r, s); return fmt.Sprintf("ok %v", ok) }), true
	case "gcm.seal.spec", "gcm.seal", "gcm.open.spec", "gcm.open":
		var ts int
		fmt.Sscan(f[5], &ts)
		key, nonce, aad, in := b(1), b(2), b(3), b(4)
		p := gcmPaths()[0]
		a, err := p.mk(key, len(nonce), ts)
		if a == nil || err != nil {
			return "", false
		}
		if strings.HasPrefix(f[0], "gcm.seal") {
			return try(func() string { return "ok " + hexOrDash(a.Seal(nil, nonce, in, aad)) }), true
		}
		return try(func() string {
			pt, err := a.Open(nil, nonce, in, aad)
			if err != nil {
				return "err"
			}
			return "ok " + hexOrDash(pt)
		}), true
	}
	return "", false
}

// genericReplay re-runs one recorded disagreement alone: implementation (when the request can be
// re-run), model and specification.
func genericReplay(c *Ctx, d Disagreement) {
	impl, ok := implFromRequest(d.Request)
	if !ok {
		impl = d.Impl
		c.res.Notes = append(c.res.Notes, "replay: request kind has no generic re-runner; the recorded implementation answer is compared with the current model/specification")
	}
	c.Case(d.Stream, d.Class, false, d.Request)
	modelReq := d.Request
	if strings.Contains(strings.Fields(d.Request)[0], ".spec") || d.Model == "" && d.Kind == "impl!=spec" && d.SpecReq == d.Request {
		// spec-only streams
		c.CheckSpec(d.Stream, d.Class, d.Request, d.Request, impl)
		return
	}
	c.Check3(d.Stream, d.Class, modelReq, d.SpecReq, impl)
}

func init() {
	for _, p := range []string{"C01", "C02", "C03", "C05", "C06", "C07", "C10", "C11", "C12", "C13", "C14", "C15", "C16", "C17", "C18", "C19", "C08", "C09"} {
		if _, ok := replayers[p]; !ok {
			replayers[p] = genericReplay
		}
	}
}
