package main

import (
	"bufio"
	"bytes"
	"fmt"
	"os"
	"os/exec"
	"path/filepath"
	"regexp"
	"sort"
	"strings"
)

// listingDigest runs `go tool asm -S` on one assembly file of the repository (independently of the
// translator) and renders, per routine, the instruction count and the mnemonic histogram in the format of
// the driver's `gen.listing`.
func listingDigest(goarch, file string) (string, error) {
	repo := os.Getenv("VERIF_REPO")
	if repo == "" {
		repo = "/repo"
	}
	tmp, err := os.MkdirTemp("", "verif-lst-")
	if err != nil {
		return "", err
	}
	defer os.RemoveAll(tmp)
	goroot, err := exec.Command("go", "env", "GOROOT").Output()
	if err != nil {
		return "", err
	}
	cmd := exec.Command("go", "tool", "asm", "-S", "-I", filepath.Join(strings.TrimSpace(string(goroot)), "pkg", "include"),
		"-I", filepath.Join(repo, "sm4"), "-p", "sm4", "-o", filepath.Join(tmp, "x.o"), filepath.Join(repo, "sm4", file))
	cmd.Env = append(os.Environ(), "GOARCH="+goarch, "GOOS=linux")
	out, err := cmd.CombinedOutput()
	if err != nil {
		return "", fmt.Errorf("%v: %s", err, out)
	}
	head := regexp.MustCompile(`^sm4\.(\S+) STEXT `)
	line := regexp.MustCompile(`^\t0x[0-9a-f]+ \d+ \([^)]*\)\t(\S+)`)
	type rt struct {
		name string
		n    int
		h    map[string]int
	}
	var rts []*rt
	sc := bufio.NewScanner(bytes.NewReader(out))
	sc.Buffer(make([]byte, 1<<20), 1<<24)
	for sc.Scan() {
		l := sc.Text()
		if m := head.FindStringSubmatch(l); m != nil {
			rts = append(rts, &rt{name: strings.ReplaceAll(m[1], ".", "_"), h: map[string]int{}})
			continue
		}
		m := line.FindStringSubmatch(l)
		if m == nil || len(rts) == 0 || m[1] == "TEXT" || m[1] == "FUNCDATA" || m[1] == "PCDATA" {
			continue
		}
		r := rts[len(rts)-1]
		r.n++
		r.h[m[1]]++
	}
	var parts []string
	for _, r := range rts {
		var ms []string
		for k := range r.h {
			ms = append(ms, k)
		}
		sort.Strings(ms)
		for i, k := range ms {
			ms[i] = fmt.Sprintf("%s=%d", k, r.h[k])
		}
		parts = append(parts, fmt.Sprintf("%s:%d:%s", r.name, r.n, strings.Join(ms, ",")))
	}
	return strings.Join(parts, " "), nil
}

// runListingReadback compares, for every assembly file, what the assembler says now with what the
// translator emitted into lean/SMGo/Gen (the data the kernel-checked certificates are about).
func runListingReadback(c *Ctx, stream string) {
	for _, f := range []struct{ arch, file string }{
		{"amd64", "asm_amd64.s"}, {"amd64", "gcm_amd64.s"}, {"amd64", "helper_amd64.s"}, {"arm64", "asm_arm64.s"}, {"arm64", "gcm_arm64.s"},
	} {
		name := f.arch + "/" + f.file
		live, err := listingDigest(f.arch, f.file)
		if err != nil {
			c.Disagree(Disagreement{Kind: "impl!=model", Class: name, Request: "gen.listing " + name, Impl: "go tool asm failed: " + err.Error(), Stream: stream})
			continue
		}
		gen := c.drv.Ask("gen.listing " + name)
		for _, r := range strings.Fields(live) {
			c.Case(stream, name+"/"+strings.SplitN(r, ":", 2)[0], false, "gen.listing "+name+" "+r[:min(len(r), 120)])
		}
		if live != gen {
			lf, gf := strings.Fields(live), strings.Fields(gen)
			i := 0
			for i < len(lf) && i < len(gf) && lf[i] == gf[i] {
				i++
			}
			l, g := "(none)", "(none)"
			if i < len(lf) {
				l = lf[i]
			}
			if i < len(gf) {
				g = gf[i]
			}
			c.Disagree(Disagreement{Kind: "impl!=model", Class: name, Request: "gen.listing " + name, Impl: "assembler: " + l[:min(len(l), 300)], Model: "generated: " + g[:min(len(g), 300)], Stream: stream})
		}
	}
}

func min(a, b int) int {
	if a < b {
		return a
	}
	return b
}

func runC09(c *Ctx) {
	c.res.Rule = "the taint certificates are Lean theorems over the REGENERATED listings (every instruction of every routine, both architectures, all paths); this run reads the listings back: it runs `go tool asm -S` itself on every assembly file and compares, per routine, the instruction count and the mnemonic histogram with what the translator emitted (a translator that dropped or mangled an instruction would be seen). class = routine. exhaustive over the 29 routines."
	runListingReadback(c, "listing.readback")
	// the Go glue around the routines (Props/C09Glue.lean): functional and leakage tie of the regenerated CT-IR
	rule := c.res.Rule
	runC09G(c)
	c.res.Rule = rule + " || Go glue: " + c.res.Rule
}

func init() { runners["C09"] = runC09 }
