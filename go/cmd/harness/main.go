// Command harness is the implementation side of the correspondence check.  For one property it
// generates cases (corpus first, then directed, then random — every random choice comes from one
// splitmix64 state seeded by VERIF_SEED), runs the real code of /repo in-process, asks the Lean
// driver (smgo_model) for the answer of the executable model and of the executable specification on
// the same case, and records every disagreement:
//
//	impl != model : the model no longer describes the code (correspondence broken)
//	impl != spec  : the property is violated on that input (this is a replay)
//	model != spec : counter-example to a theorem (possible only when a proof is already failing)
//
// Output: one JSON document on stdout (counts, class histogram, samples, disagreements).
package main

import (
	"bufio"
	"encoding/json"
	"flag"
	"fmt"
	"io"
	"os"
	"os/exec"
	"path/filepath"
	"sort"
	"strings"
	"time"
)

type Driver struct {
	cmd *exec.Cmd
	in  *bufio.Writer
	out *bufio.Reader
	n   int
}

func startDriver(path string) *Driver {
	cmd := exec.Command(path)
	stdin, err := cmd.StdinPipe()
	if err != nil {
		fatal("%v", err)
	}
	stdout, err := cmd.StdoutPipe()
	if err != nil {
		fatal("%v", err)
	}
	cmd.Stderr = os.Stderr
	if err := cmd.Start(); err != nil {
		fatal("cannot start model driver %s: %v", path, err)
	}
	return &Driver{cmd: cmd, in: bufio.NewWriterSize(stdin, 1<<20), out: bufio.NewReaderSize(stdout, 1<<20)}
}

// Ask sends one request line and returns the answer line.
func (d *Driver) Ask(req string) string {
	d.n++
	if strings.ContainsAny(req, "\n\r") {
		fatal("request contains newline: %q", req)
	}
	if _, err := d.in.WriteString(req + "\n"); err != nil {
		fatal("driver write: %v", err)
	}
	if err := d.in.Flush(); err != nil {
		fatal("driver flush: %v", err)
	}
	line, err := d.out.ReadString('\n')
	if err != nil && err != io.EOF {
		fatal("driver read: %v", err)
	}
	if err == io.EOF && line == "" {
		fatal("driver closed its output after request %q", req)
	}
	return strings.TrimRight(line, "\r\n")
}

func (d *Driver) Close() {
	d.in.Flush()
	if c, ok := d.cmd.Stdin.(io.Closer); ok {
		c.Close()
	}
	d.cmd.Process.Kill()
	d.cmd.Wait()
}

func fatal(format string, a ...interface{}) {
	fmt.Fprintf(os.Stderr, "harness: "+format+"\n", a...)
	os.Exit(3)
}

// ---- PRNG ------------------------------------------------------------------------------------

type Rng struct{ s uint64 }

func (r *Rng) U64() uint64 {
	r.s += 0x9e3779b97f4a7c15
	z := r.s
	z = (z ^ (z >> 30)) * 0xbf58476d1ce4e5b9
	z = (z ^ (z >> 27)) * 0x94d049bb133111eb
	return z ^ (z >> 31)
}
func (r *Rng) Intn(n int) int {
	if n <= 0 {
		return 0
	}
	return int(r.U64() % uint64(n))
}
func (r *Rng) Bytes(n int) []byte {
	b := make([]byte, n)
	for i := range b {
		b[i] = byte(r.U64())
	}
	return b
}

// Read makes Rng an io.Reader (never fails).
func (r *Rng) Read(p []byte) (int, error) {
	for i := range p {
		p[i] = byte(r.U64())
	}
	return len(p), nil
}

// ---- result bookkeeping -----------------------------------------------------------------------

type Disagreement struct {
	Kind     string `json:"kind"` // impl!=model | impl!=spec | model!=spec
	Class    string `json:"class"`
	Request  string `json:"request"`
	SpecReq  string `json:"spec_request,omitempty"`
	Impl     string `json:"impl"`
	Model    string `json:"model,omitempty"`
	Spec     string `json:"spec,omitempty"`
	Note     string `json:"note,omitempty"`
	Stream   string `json:"stream"`
	Shrunk   bool   `json:"shrunk,omitempty"`
	Original string `json:"original_request,omitempty"`
}

type Result struct {
	Property      string            `json:"property"`
	Tier          string            `json:"tier"`
	Seed          uint64            `json:"seed"`
	Evaluations   int               `json:"evaluations"`
	Distinct      int               `json:"distinct_nontrivial"`
	Rule          string            `json:"rule"`
	Classes       map[string]int    `json:"classes"`
	Samples       []string          `json:"samples"`
	Disagreements []Disagreement    `json:"disagreements"`
	Streams       map[string]int    `json:"streams"`
	DriverCalls   int               `json:"driver_calls"`
	WallS         float64           `json:"wall_s"`
	Notes         []string          `json:"notes,omitempty"`
	Extra         map[string]string `json:"extra,omitempty"`
}

type Ctx struct {
	drv      *Driver
	rng      *Rng
	tier     string
	res      *Result
	seenSig  map[string]bool
	maxDis   int
	curClass string
	shrunk   int
	inShrink bool
}

// Case records one evaluated case. stream names the correspondence stream (e.g. "sm3.hist");
// class is the model-branch signature used for the distinct/non-trivial count; trivial marks the
// default branch.
func (c *Ctx) Case(stream, class string, trivial bool, sample string) {
	c.res.Evaluations++
	c.res.Streams[stream]++
	c.res.Classes[class]++
	if !trivial {
		sig := stream + "/" + class
		if !c.seenSig[sig] {
			c.seenSig[sig] = true
			c.res.Distinct++
			if len(c.res.Samples) < 40 {
				if len(sample) > 400 {
					sample = sample[:400] + "…"
				}
				c.res.Samples = append(c.res.Samples, sample)
			}
		}
	}
}

func (c *Ctx) Disagree(d Disagreement) {
	if len(c.res.Disagreements) < c.maxDis {
		// the first few violations of the property are minimised (greedy, budgeted) before they are recorded
		if d.Kind == "impl!=spec" && c.shrunk < 3 && !c.inShrink {
			c.inShrink = true
			if small, ok := c.shrinkRequest(d.Request); ok && small != d.Request {
				impl, _ := implFromRequest(small)
				d.Original, d.Request, d.SpecReq, d.Impl, d.Spec, d.Shrunk = d.Request, small, specRequestOf(small), impl, c.drv.Ask(specRequestOf(small)), true
				c.shrunk++
			}
			c.inShrink = false
		}
		c.res.Disagreements = append(c.res.Disagreements, d)
	}
}

// Check3 compares impl with model (request req) and, when specReq != "", with the specification.
// Returns true when everything agrees.
func (c *Ctx) Check3(stream, class, req, specReq, impl string) bool {
	ok := true
	model := c.drv.Ask(req)
	if model != impl {
		ok = false
		c.Disagree(Disagreement{Kind: "impl!=model", Class: class, Request: req, Impl: impl, Model: model, Stream: stream})
	}
	if specReq != "" {
		spec := c.drv.Ask(specReq)
		if spec != impl {
			ok = false
			c.Disagree(Disagreement{Kind: "impl!=spec", Class: class, Request: req, SpecReq: specReq, Impl: impl, Spec: spec, Stream: stream})
		}
		if spec != model {
			c.Disagree(Disagreement{Kind: "model!=spec", Class: class, Request: req, SpecReq: specReq, Model: model, Spec: spec, Stream: stream})
		}
	}
	return ok
}

type propRunner func(c *Ctx)

var runners = map[string]propRunner{}
var replayers = map[string]func(c *Ctx, d Disagreement){}

func main() {
	prop := flag.String("property", "", "property id, e.g. C04")
	tier := flag.String("tier", "quick", "quick|thorough")
	seed := flag.Uint64("seed", 1, "PRNG seed")
	driver := flag.String("driver", "/verif/lean/.lake/build/bin/smgo_model", "path of the Lean model driver")
	replay := flag.String("replay", "", "replay file (JSON with a disagreement) to re-run alone")
	flag.Parse()
	run, ok := runners[*prop]
	if !ok {
		fatal("no runner for property %q", *prop)
	}
	t0 := time.Now()
	drv := startDriver(*driver)
	defer drv.Close()
	res := &Result{Disagreements: []Disagreement{}, Samples: []string{}, Property: *prop, Tier: *tier, Seed: *seed, Classes: map[string]int{}, Streams: map[string]int{}, Extra: map[string]string{}}
	c := &Ctx{drv: drv, rng: &Rng{s: *seed*0x100000001b3 + 0xcbf29ce484222325}, tier: *tier, res: res, seenSig: map[string]bool{}, maxDis: 50}
	if *replay != "" {
		raw, err := os.ReadFile(*replay)
		if err != nil {
			fatal("%v", err)
		}
		var rp struct {
			Disagreement Disagreement `json:"disagreement"`
		}
		if err := json.Unmarshal(raw, &rp); err != nil {
			fatal("replay file: %v", err)
		}
		f, ok := replayers[*prop]
		if !ok {
			fatal("no replayer for %s", *prop)
		}
		f(c, rp.Disagreement)
	} else {
		// corpus first: minimised past failures (and the pre-repair witnesses of the known findings)
		if dir := os.Getenv("VERIF_DIR"); dir != "" {
			files, _ := filepath.Glob(filepath.Join(dir, "corpus", *prop, "*.json"))
			sort.Strings(files)
			for _, fn := range files {
				raw, err := os.ReadFile(fn)
				if err != nil {
					continue
				}
				var rp struct {
					Disagreement Disagreement `json:"disagreement"`
				}
				if json.Unmarshal(raw, &rp) == nil && rp.Disagreement.Request != "" {
					if f, ok := replayers[*prop]; ok {
						rp.Disagreement.Class = "corpus/" + filepath.Base(fn)
						f(c, rp.Disagreement)
					}
				}
			}
		}
		run(c)
	}
	res.DriverCalls = drv.n
	res.WallS = time.Since(t0).Seconds()
	// stable output
	sort.Strings(res.Notes)
	enc := json.NewEncoder(os.Stdout)
	enc.SetIndent("", " ")
	enc.Encode(res)
}

func hexOrDash(b []byte) string {
	if len(b) == 0 {
		return "-"
	}
	return fmt.Sprintf("%x", b)
}

func hexOrNil(b []byte) string {
	if b == nil {
		return "nil"
	}
	return hexOrDash(b)
}

// try runs f and maps a panic to the string "panic".
func try(f func() string) (out string) {
	defer func() {
		if r := recover(); r != nil {
			out = "panic"
		}
	}()
	return f()
}

// CheckModel compares the implementation with the executable model only.
func (c *Ctx) CheckModel(stream, class, req, impl string) bool {
	model := c.drv.Ask(req)
	if model != impl {
		c.Disagree(Disagreement{Kind: "impl!=model", Class: class, Request: req, Impl: impl, Model: model, Stream: stream})
		return false
	}
	return true
}

// CheckSpec compares a (possibly differently formatted) view of the implementation's answer with the
// executable specification.
func (c *Ctx) CheckSpec(stream, class, req, specReq, implView string) bool {
	spec := c.drv.Ask(specReq)
	if spec != implView {
		c.Disagree(Disagreement{Kind: "impl!=spec", Class: class, Request: req, SpecReq: specReq, Impl: implView, Spec: spec, Stream: stream})
		return false
	}
	return true
}
