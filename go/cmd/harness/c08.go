package main

// C08: the generated CT-IR program (lean/SMGo/Gen/CTIRProg.lean) as a functional model and as a
// leakage model.
//
//	(a) results: the IR interpreter (`ctir.run <function> <args>`) against the real functions, through
//	    the exported API and the verif hooks — a mistranslated loop, index or width would show here;
//	(b) traces: for every function with a `ct_` theorem, pairs of different secrets of equal length
//	    (leading 0x00 / 0xFF bytes, all window values, boundary values) with the same public
//	    arguments must give the same leakage trace (`ctir.trace`), whenever the declassified
//	    verdicts coincide.  A difference is the two-secret replay of a violation: `impl!=spec` with
//	    both requests.  The functions the checker rejects (SM2ScalarElement.SetBytes, and
//	    DerivePublic / GenerateKey / SignHashed through Bytes_Unsafe / GetAffineX_Unsafe) are replayed
//	    the same way: as long as the sources are not repaired they are reported.
import (
	"fmt"
	"math/big"
	"strings"

	"github.com/bilibili/smgo/sm2"
	"github.com/bilibili/smgo/utils"
)

func vBytes(b []byte) string { return fmt.Sprintf("x%x", b) }

func vInts(b []byte) string {
	parts := make([]string, len(b))
	for i, x := range b {
		parts[i] = fmt.Sprint(x)
	}
	return "[" + strings.Join(parts, ",") + "]"
}

func vLimbs(l [4]uint64) string { return fmt.Sprintf("[%d,%d,%d,%d]", l[0], l[1], l[2], l[3]) }
func vElem(l [4]uint64) string  { return "[" + vLimbs(l) + "]" }

func vPoint(p *sm2.VerifPoint) string {
	x, y, z := p.VerifCoords()
	return "[" + vElem(x) + "," + vElem(y) + "," + vElem(z) + "]"
}

const vZeroPoint = "[[[0,0,0,0]],[[0,0,0,0]],[[0,0,0,0]]]"

func vTable2(t [][]*[4]uint64) string {
	rows := make([]string, len(t))
	for i, r := range t {
		es := make([]string, len(r))
		for j, e := range r {
			es[j] = vLimbs(*e)
		}
		rows[i] = "[" + strings.Join(es, ",") + "]"
	}
	return "[" + strings.Join(rows, ",") + "]"
}

func errFlag(err error) string {
	if err != nil {
		return "1"
	}
	return "0"
}

func scalarElemRaw(l [4]uint64) *sm2.VerifScalarElement {
	e := new(sm2.VerifScalarElement)
	*e.VerifRaw() = l
	return e
}

func fieldElemRaw(l [4]uint64) *sm2.VerifElement { return new(sm2.VerifElement).SetRaw(l) }

// canonical limbs (Montgomery form of a value below the modulus is again below the modulus)
func randCanon(c *Ctx, m *big.Int) [4]uint64 {
	v := new(big.Int).SetBytes(c.rng.Bytes(40))
	switch c.rng.Intn(6) {
	case 0:
		v = big.NewInt(int64(c.rng.Intn(3)))
	case 1:
		v = new(big.Int).Sub(m, big.NewInt(int64(1+c.rng.Intn(3))))
	}
	return limbsOf(v.Mod(v, m))
}

type c08 struct {
	c *Ctx
}

// run compares the IR interpreter with the implementation on one call
func (h *c08) run(fn, class string, trivial bool, args []string, impl string) {
	req := "ctir.run " + fn + " " + strings.Join(args, " ")
	h.c.Case("ctir.run", "run/"+fn+"/"+class, trivial, req)
	h.c.CheckModel("ctir.run", "run/"+fn+"/"+class, req, impl)
}

// pair asks for the traces of two calls that differ only in secrets and requires equal traces when
// the declassified verdicts are equal.  known marks a function the checker rejects.
func (h *c08) pair(fn, class string, a1, a2 []string, known string) {
	r1 := "ctir.trace " + fn + " " + strings.Join(a1, " ")
	r2 := "ctir.trace " + fn + " " + strings.Join(a2, " ")
	t1, t2 := h.c.drv.Ask(r1), h.c.drv.Ask(r2)
	cl := "trace/" + fn + "/" + class
	h.c.Case("ctir.trace", cl, false, r1+" || "+r2)
	d := func(s string) string {
		if i := strings.Index(s, " d="); i >= 0 {
			return s[i:]
		}
		return s
	}
	bad := func(s string) bool { return !strings.HasPrefix(s, "ok ") && !strings.HasPrefix(s, "panic ") }
	if bad(t1) || bad(t2) {
		h.c.Disagree(Disagreement{Kind: "impl!=model", Class: cl, Request: r1 + " || " + r2, Impl: "a terminating run", Model: t1 + " || " + t2, Stream: "ctir.trace", Note: "the IR interpreter did not terminate normally"})
		return
	}
	if d(t1) != d(t2) {
		h.c.res.Classes["trace/"+fn+"/verdicts-differ"]++
		return // different verdicts: the property allows different traces
	}
	if t1 != t2 {
		note := "two secrets of equal length, equal verdicts, different leakage traces"
		if known != "" {
			note += " — " + known
		}
		h.c.Disagree(Disagreement{Kind: "impl!=spec", Class: cl, Request: r1 + " || " + r2, Impl: t1, Spec: t2, Stream: "ctir.trace", Note: note})
	}
}

func (h *c08) secretBytes(n int, k int) []byte {
	c := h.c
	b := c.rng.Bytes(n)
	switch k % 6 {
	case 0:
		for i := 0; i < n && i < 1+c.rng.Intn(n+1); i++ {
			b[i] = 0
		}
	case 1:
		for i := 0; i < n && i < 1+c.rng.Intn(n+1); i++ {
			b[i] = 0xff
		}
	case 2:
		for i := range b {
			b[i] = 0
		}
		if n > 0 {
			b[n-1] = 1
		}
	case 3:
		for i := range b {
			b[i] = 0xff
		}
	}
	return b
}

// a scalar in [1, n-1] with the given pattern of leading bytes
func (h *c08) validScalar(k int) []byte {
	for {
		b := h.secretBytes(32, k)
		v := new(big.Int).SetBytes(b)
		if v.Sign() > 0 && v.Cmp(new(big.Int).Sub(curveN, big.NewInt(1))) < 0 {
			return b
		}
		if k%6 == 1 || k%6 == 3 { // 0xFF.. is above n: use n-2-small
			return be32(new(big.Int).Sub(curveN, big.NewInt(int64(2+h.c.rng.Intn(1000)))))
		}
		k++
	}
}

func runC08(c *Ctx) {
	c.res.Rule = "results: per function of the C08 scope, IR interpreter vs implementation on boundary and random inputs (class = function/input pattern); traces: per function with a ct_ theorem, pairs of secrets of equal length with equal public inputs (leading 0x00/0xFF runs, all window values, 0, 1, n-1, p-1) must have equal traces when the declassified verdicts are equal; the rejected functions are replayed the same way"
	h := &c08{c: c}
	nSmall, nMed, nBig := 60, 12, 3
	if c.tier == "thorough" {
		nSmall, nMed, nBig = 1500, 120, 25
	}
	h.resultsSmall(nSmall)
	h.resultsField(nSmall, nMed)
	h.resultsPoints(nMed, nBig)
	h.resultsEntry(nBig)
	h.tracePairs(nSmall, nMed, nBig)
}

// ---- (a) results ------------------------------------------------------------------------------------

func (h *c08) resultsSmall(n int) {
	c := h.c
	cmp := func(a, b []byte, l int, class string) {
		impl := try(func() string { return fmt.Sprintf("ok %d", utils.ConstantTimeCmp(a, b, l)) })
		if impl == "panic" {
			return // out-of-range l: the IR has no panics for indices (stuck)
		}
		h.run("utils.ConstantTimeCmp", class, false, []string{vBytes(a), vBytes(b), fmt.Sprint(l)}, impl)
	}
	for l := 0; l <= 34; l++ {
		a, b := make([]byte, l), make([]byte, l)
		cmp(a, b, l, "equal")
		for i := 0; i < l; i += 1 + l/6 {
			for _, pat := range [][2]byte{{0, 0xff}, {0xff, 0}, {1, 0}, {0x7f, 0x80}} {
				a, b := make([]byte, l), make([]byte, l)
				a[i], b[i] = pat[0], pat[1]
				for j := i + 1; j < l; j++ {
					a[j], b[j] = pat[1], pat[0]
				}
				cmp(a, b, l, "directed")
			}
		}
	}
	for i := 0; i < n; i++ {
		l := c.rng.Intn(40)
		a, b := c.rng.Bytes(l+c.rng.Intn(3)), c.rng.Bytes(l+c.rng.Intn(3))
		copy(b[:c.rng.Intn(l+1)], a)
		cmp(a, b, l-c.rng.Intn(2)*c.rng.Intn(l+1), "random")
	}
	cmp([]byte{1}, []byte{2}, 0, "l=0")
	cmp([]byte{1}, []byte{2}, -3, "l<0")

	tpk := func(p []byte, class string) {
		h.run("sm2.TestPrivateKey", class, false, []string{vBytes(p)}, fmt.Sprintf("ok %d", sm2.TestPrivateKey(p)))
	}
	for l := 0; l <= 36; l++ {
		tpk(make([]byte, l), "zero")
		tpk(c.rng.Bytes(l), "len")
	}
	for d := int64(-3); d <= 3; d++ {
		tpk(be32(new(big.Int).Add(curveN, big.NewInt(d))), "near-n")
	}
	for i := 0; i < n; i++ {
		tpk(h.secretBytes(32, i), "random")
	}

	for i := 0; i < n; i++ {
		k := h.secretBytes(32, i)
		for _, sch := range [][4]int{{6, 3, 14, 4}, {5, 3, 17, 1}, {4, 2, 32, 0}, {7, 3, 12, 4}} {
			w, s, it, rem := sch[0], sch[1], sch[2], sch[3]
			idx := c.rng.Intn(it) + c.rng.Intn(s)*it + rem
			h.run("internal.extractHigherBits", fmt.Sprintf("w%d", w), false, []string{vBytes(k), fmt.Sprint(idx), fmt.Sprint(w), fmt.Sprint(s * it)},
				fmt.Sprintf("ok %d", sm2.VerifExtractHigherBits(k, idx, w, s*it)))
			if rem > 0 {
				h.run("internal.extractLowerBits", fmt.Sprintf("r%d", rem), false, []string{vBytes(k), fmt.Sprint(rem)}, fmt.Sprintf("ok %d", sm2.VerifExtractLowerBits(k, rem)))
			}
		}
		bit := c.rng.Intn(256)
		h.run("internal.extractBit", "bit", false, []string{vBytes(k), fmt.Sprint(bit)}, fmt.Sprintf("ok %d", sm2.VerifExtractHigherBits(k, bit, 1, 1)))
	}
}

func (h *c08) resultsField(n, nInv int) {
	c := h.c
	type fld struct {
		name, pfx string
		m         *big.Int
		op        func(string, *[4]uint64, *[4]uint64) [4]uint64
	}
	for _, f := range []fld{{"p", "fiat.sm2", curveP, sm2.VerifFieldOp}, {"n", "fiat.sm2Scalar", curveN, sm2.VerifScalarOp}} {
		z := "[0,0,0,0]"
		for i := 0; i < n; i++ {
			a, b := randCanon(c, f.m), randCanon(c, f.m)
			class := "canon"
			for _, op := range [][2]string{{"Mul", "mul"}, {"Add", "add"}, {"Sub", "sub"}} {
				h.run(f.pfx+op[0], class, i > 8, []string{z, vLimbs(a), vLimbs(b)}, "ok "+vLimbs(f.op(op[1], &a, &b)))
			}
			for _, op := range [][2]string{{"Square", "square"}, {"Opp", "opp"}, {"FromMontgomery", "frommont"}, {"ToMontgomery", "tomont"}} {
				h.run(f.pfx+op[0], class, i > 8, []string{z, vLimbs(a)}, "ok "+vLimbs(f.op(op[1], &a, &a)))
			}
			h.run(f.pfx+"Selectznz", "0", i > 2, []string{z, "0", vLimbs(a), vLimbs(b)}, "ok "+vLimbs(f.op("selectznz0", &a, &b)))
			h.run(f.pfx+"Selectznz", "1", i > 2, []string{z, "1", vLimbs(a), vLimbs(b)}, "ok "+vLimbs(f.op("selectznz1", &a, &b)))
			if f.name == "p" {
				tb := sm2.VerifFieldToBytes(&a)
				h.run(f.pfx+"ToBytes", class, i > 4, []string{vBytes(make([]byte, 32)), vLimbs(a)}, "ok "+vInts(tb[:]))
				h.run(f.pfx+"FromBytes", class, i > 4, []string{z, vBytes(tb[:])}, "ok "+vLimbs(sm2.VerifFieldFromBytes(&tb)))
			} else {
				tb := sm2.VerifScalarToBytes(&a)
				h.run(f.pfx+"ToBytes", class, i > 4, []string{vBytes(make([]byte, 32)), vLimbs(a)}, "ok "+vInts(tb[:]))
				h.run(f.pfx+"FromBytes", class, i > 4, []string{z, vBytes(tb[:])}, "ok "+vLimbs(sm2.VerifScalarFromBytes(&tb)))
			}
		}
		var zero [4]uint64
		h.run(f.pfx+"SetOne", "const", false, []string{z}, "ok "+vLimbs(f.op("one", &zero, &zero)))
		for i := 0; i < nInv; i++ {
			a := randCanon(c, f.m)
			h.run(f.pfx+"FermatInvert_FiatAC", "canon", i > 3, []string{z, vLimbs(a)}, "ok "+vLimbs(f.op("invert", &a, &a)))
		}
	}
	// element wrappers (field p): through the exported methods
	ze := "[[0,0,0,0]]"
	for i := 0; i < n; i++ {
		a, b := randCanon(c, curveP), randCanon(c, curveP)
		ea, eb := fieldElemRaw(a), fieldElemRaw(b)
		res := func(e *sm2.VerifElement) string { v := vElem(*e.GetRaw()); return "ok " + v + " " + v }
		h.run("fiat.SM2Element.Mul", "canon", i > 4, []string{ze, vElem(a), vElem(b)}, res(new(sm2.VerifElement).Mul(ea, eb)))
		h.run("fiat.SM2Element.Add", "canon", i > 4, []string{ze, vElem(a), vElem(b)}, res(new(sm2.VerifElement).Add(ea, eb)))
		h.run("fiat.SM2Element.Sub", "canon", i > 4, []string{ze, vElem(a), vElem(b)}, res(new(sm2.VerifElement).Sub(ea, eb)))
		h.run("fiat.SM2Element.Square", "canon", i > 4, []string{ze, vElem(a)}, res(new(sm2.VerifElement).Square(ea)))
		h.run("fiat.SM2Element.Opp", "canon", i > 4, []string{ze, vElem(a)}, res(new(sm2.VerifElement).Opp(ea)))
		h.run("fiat.SM2Element.Set", "canon", i > 4, []string{ze, vElem(a)}, res(new(sm2.VerifElement).Set(ea)))
		h.run("fiat.SM2Element.One", "const", i > 0, []string{vElem(a)}, res(fieldElemRaw(a).One()))
		h.run("fiat.SM2Element.SetRaw", "canon", i > 4, []string{ze, vLimbs(a)}, res(new(sm2.VerifElement).SetRaw(a)))
		h.run("fiat.SM2Element.GetRaw", "canon", i > 4, []string{vElem(a)}, "ok "+vLimbs(*ea.GetRaw()))
		for cond := 0; cond <= 1; cond++ {
			h.run("fiat.SM2Element.Select", fmt.Sprint(cond), i > 2, []string{ze, vElem(a), vElem(b), fmt.Sprint(cond)}, res(new(sm2.VerifElement).Select(ea, eb, cond)))
		}
		h.run("fiat.SM2Element.Bytes", "canon", i > 4, []string{vElem(a)}, "ok "+vInts(ea.Bytes()))
		h.run("fiat.SM2Element.IsZero", "canon", i > 4, []string{vElem(a)}, fmt.Sprintf("ok %d", ea.IsZero()))
		h.run("fiat.SM2Element.Equal", "ne", i > 4, []string{vElem(a), vElem(b)}, fmt.Sprintf("ok %d", ea.Equal(eb)))
		h.run("fiat.SM2Element.Equal", "eq", i > 4, []string{vElem(a), vElem(a)}, fmt.Sprintf("ok %d", ea.Equal(ea)))
		if i < 6 {
			h.run("fiat.SM2Element.Invert", "canon", i > 1, []string{ze, vElem(a)}, res(new(sm2.VerifElement).Invert(ea)))
		}
	}
	var zl [4]uint64
	h.run("fiat.SM2Element.IsZero", "zero", false, []string{vElem(zl)}, fmt.Sprintf("ok %d", fieldElemRaw(zl).IsZero()))
	// SetBytes of both fields: canonical, boundary, rejected encodings, wrong lengths
	setBytes := func(fld string, x []byte, class string) {
		if fld == "p" {
			e, err := new(sm2.VerifElement).SetBytes(x)
			impl := "ok [[0,0,0,0]] [[0,0,0,0]] 1"
			if err == nil {
				v := vElem(*e.GetRaw())
				impl = "ok " + v + " " + v + " 0"
			}
			h.run("fiat.SM2Element.SetBytes", class, false, []string{ze, vBytes(x)}, impl)
		} else {
			e, err := new(sm2.VerifScalarElement).SetBytes(x)
			impl := "ok [[0,0,0,0]] [[0,0,0,0]] 1"
			if err == nil {
				v := vElem(*e.VerifRaw())
				impl = "ok " + v + " " + v + " 0"
			}
			h.run("fiat.SM2ScalarElement.SetBytes", class, false, []string{ze, vBytes(x)}, impl)
		}
	}
	for _, fm := range []struct {
		f string
		m *big.Int
	}{{"p", curveP}, {"n", curveN}} {
		for d := int64(-3); d <= 3; d++ {
			setBytes(fm.f, be32(new(big.Int).Add(fm.m, big.NewInt(d))), "near-m")
		}
		for i := 0; i < n/2+4; i++ {
			setBytes(fm.f, h.secretBytes(32, i), "pattern")
		}
		for _, l := range []int{0, 1, 31, 33} {
			setBytes(fm.f, c.rng.Bytes(l), "len")
		}
	}
	// scalar element wrappers
	for i := 0; i < n/2+2; i++ {
		a, b := randCanon(c, curveN), randCanon(c, curveN)
		ea, eb := scalarElemRaw(a), scalarElemRaw(b)
		res := func(e *sm2.VerifScalarElement) string { v := vElem(*e.VerifRaw()); return "ok " + v + " " + v }
		h.run("fiat.SM2ScalarElement.Mul", "canon", i > 4, []string{ze, vElem(a), vElem(b)}, res(new(sm2.VerifScalarElement).Mul(ea, eb)))
		h.run("fiat.SM2ScalarElement.Add", "canon", i > 4, []string{ze, vElem(a), vElem(b)}, res(new(sm2.VerifScalarElement).Add(ea, eb)))
		h.run("fiat.SM2ScalarElement.Sub", "canon", i > 4, []string{ze, vElem(a), vElem(b)}, res(new(sm2.VerifScalarElement).Sub(ea, eb)))
		h.run("fiat.SM2ScalarElement.Square", "canon", i > 4, []string{ze, vElem(a)}, res(new(sm2.VerifScalarElement).Square(ea)))
		h.run("fiat.SM2ScalarElement.Set", "canon", i > 4, []string{ze, vElem(a)}, res(new(sm2.VerifScalarElement).Set(ea)))
		h.run("fiat.SM2ScalarElement.One", "const", i > 0, []string{vElem(a)}, res(scalarElemRaw(a).One()))
		for cond := 0; cond <= 1; cond++ {
			h.run("fiat.SM2ScalarElement.Select", fmt.Sprint(cond), i > 2, []string{ze, vElem(a), vElem(b), fmt.Sprint(cond)}, res(new(sm2.VerifScalarElement).Select(ea, eb, cond)))
		}
		h.run("fiat.SM2ScalarElement.Bytes", "canon", i > 4, []string{vElem(a)}, "ok "+vInts(ea.Bytes()))
		h.run("fiat.SM2ScalarElement.IsZero", "canon", i > 4, []string{vElem(a)}, fmt.Sprintf("ok %d", ea.IsZero()))
		h.run("fiat.SM2ScalarElement.Equal", "ne", i > 4, []string{vElem(a), vElem(b)}, fmt.Sprintf("ok %d", ea.Equal(eb)))
		if i < 6 {
			h.run("fiat.SM2ScalarElement.Invert", "canon", i > 1, []string{ze, vElem(a)}, res(new(sm2.VerifScalarElement).Invert(ea)))
		}
	}
}
