package main

// C08: the generated CT-IR program (lean/SMGo/Gen/CTIRProg.lean) as a functional model and as a
// leakage model.
//
//	(a) results: the IR interpreter (`ctir.run <function> <args>`) against the real functions, through
//	    the exported API and the verif hooks — a mistranslated loop, index or width would show here;
//	(b) traces: for every function with a `ct_` theorem, pairs of different secrets of equal length
//	    (leading 0x00 / 0xFF bytes, all window values, boundary values) with the same public
//	    arguments must give the same leakage trace (`ctir.trace`), whenever the declassified
//	    verdicts coincide.  A difference is the two-secret replay of a violation: `impl!=spec` with
//	    both requests.  The entry points DerivePublic / GenerateKey / SignHashed and
//	    SM2ScalarElement.SetBytes are among them since the repairs 9cead3d, 233fd1f, 9a85a34, 3579533 (before,
//	    this runner replayed their violations: early-exit comparison, big.Int.ModInverse of Z).
import (
	"fmt"
	"math/big"
	"strings"
	"time"

	"github.com/bilibili/smgo/sm2"
	"github.com/bilibili/smgo/utils"
)

func vBytes(b []byte) string { return fmt.Sprintf("x%x", b) }

func vInts(b []byte) string {
	parts := make([]string, len(b))
	for i, x := range b {
		parts[i] = fmt.Sprint(x)
	}
	return "[" + strings.Join(parts, ",") + "]"
}

func vLimbs(l [4]uint64) string { return fmt.Sprintf("[%d,%d,%d,%d]", l[0], l[1], l[2], l[3]) }
func vElem(l [4]uint64) string  { return "[" + vLimbs(l) + "]" }

func vPoint(p *sm2.VerifPoint) string {
	x, y, z := p.VerifCoords()
	return "[" + vElem(x) + "," + vElem(y) + "," + vElem(z) + "]"
}

const vZeroPoint = "[[[0,0,0,0]],[[0,0,0,0]],[[0,0,0,0]]]"

func vTable2(t [][]*[4]uint64) string {
	rows := make([]string, len(t))
	for i, r := range t {
		es := make([]string, len(r))
		for j, e := range r {
			es[j] = vLimbs(*e)
		}
		rows[i] = "[" + strings.Join(es, ",") + "]"
	}
	return "[" + strings.Join(rows, ",") + "]"
}

func errFlag(err error) string {
	if err != nil {
		return "1"
	}
	return "0"
}

func scalarElemRaw(l [4]uint64) *sm2.VerifScalarElement {
	e := new(sm2.VerifScalarElement)
	*e.VerifRaw() = l
	return e
}

func fieldElemRaw(l [4]uint64) *sm2.VerifElement { return new(sm2.VerifElement).SetRaw(l) }

// canonical limbs (Montgomery form of a value below the modulus is again below the modulus)
func randCanon(c *Ctx, m *big.Int) [4]uint64 {
	v := new(big.Int).SetBytes(c.rng.Bytes(40))
	switch c.rng.Intn(6) {
	case 0:
		v = big.NewInt(int64(c.rng.Intn(3)))
	case 1:
		v = new(big.Int).Sub(m, big.NewInt(int64(1+c.rng.Intn(3))))
	}
	return limbsOf(v.Mod(v, m))
}

type c08 struct {
	c      *Ctx
	quick  bool
	traces map[string]string // answers of ctir.trace requests (deterministic): a reference secret is traced once
}

func (h *c08) trace(req string) string {
	if t, ok := h.traces[req]; ok {
		return t
	}
	t := h.c.drv.Ask(req)
	h.traces[req] = t
	return t
}

// run compares the IR interpreter with the implementation on one call
func (h *c08) run(fn, class string, trivial bool, args []string, impl string) {
	req := "ctir.run " + fn + " " + strings.Join(args, " ")
	h.c.Case("ctir.run", "run/"+fn+"/"+class, trivial, req)
	h.c.CheckModel("ctir.run", "run/"+fn+"/"+class, req, impl)
}

// pair asks for the traces of two calls that differ only in secrets and requires equal traces when
// the declassified verdicts are equal.  known marks a function the checker rejects.
func (h *c08) pair(fn, class string, a1, a2 []string, known string) bool {
	r1 := "ctir.trace " + fn + " " + strings.Join(a1, " ")
	r2 := "ctir.trace " + fn + " " + strings.Join(a2, " ")
	t1, t2 := h.trace(r1), h.trace(r2)
	cl := "trace/" + fn + "/" + class
	h.c.Case("ctir.trace", cl, false, r1+" || "+r2)
	d := func(s string) string {
		if i := strings.Index(s, " d="); i >= 0 {
			return s[i:]
		}
		return s
	}
	bad := func(s string) bool { return !strings.HasPrefix(s, "ok ") && !strings.HasPrefix(s, "panic ") }
	if bad(t1) || bad(t2) {
		h.c.Disagree(Disagreement{Kind: "impl!=model", Class: cl, Request: r1 + " || " + r2, Impl: "a terminating run", Model: t1 + " || " + t2, Stream: "ctir.trace", Note: "the IR interpreter did not terminate normally"})
		return true
	}
	if d(t1) != d(t2) {
		h.c.res.Classes["trace/"+fn+"/verdicts-differ"]++
		return false // different verdicts: the property allows different traces
	}
	if t1 != t2 {
		note := "two secrets of equal length, equal verdicts, different leakage traces"
		if known != "" {
			note += " — " + known
		}
		h.c.Disagree(Disagreement{Kind: "impl!=spec", Class: cl, Request: r1 + " || " + r2, Impl: t1, Spec: t2, Stream: "ctir.trace", Note: note})
	}
	return true
}

func (h *c08) secretBytes(n int, k int) []byte {
	c := h.c
	b := c.rng.Bytes(n)
	switch k % 6 {
	case 0:
		for i := 0; i < n && i < 1+c.rng.Intn(n+1); i++ {
			b[i] = 0
		}
	case 1:
		for i := 0; i < n && i < 1+c.rng.Intn(n+1); i++ {
			b[i] = 0xff
		}
	case 2:
		for i := range b {
			b[i] = 0
		}
		if n > 0 {
			b[n-1] = 1
		}
	case 3:
		for i := range b {
			b[i] = 0xff
		}
	}
	return b
}

// a scalar in [1, n-1] with the given pattern of leading bytes
func (h *c08) validScalar(k int) []byte {
	for {
		b := h.secretBytes(32, k)
		v := new(big.Int).SetBytes(b)
		if v.Sign() > 0 && v.Cmp(new(big.Int).Sub(curveN, big.NewInt(1))) < 0 {
			return b
		}
		if k%6 == 1 || k%6 == 3 { // 0xFF.. is above n: use n-2-small
			return be32(new(big.Int).Sub(curveN, big.NewInt(int64(2+h.c.rng.Intn(1000)))))
		}
		k++
	}
}

func runC08(c *Ctx) {
	c.res.Rule = "results: per function of the C08 scope, IR interpreter vs implementation on boundary and random inputs (class = function/input pattern); traces: per function with a ct_ theorem, pairs of secrets of equal length with equal public inputs (leading 0x00/0xFF runs, all window values, 0, 1, n-1, p-1) must have equal traces when the declassified verdicts are equal; the rejected functions are replayed the same way"
	h := &c08{c: c, traces: map[string]string{}}
	nSmall, nMed, nBig := 60, 12, 3
	h.quick = true
	if c.tier == "thorough" {
		nSmall, nMed, nBig = 1500, 120, 25
		h.quick = false
	}
	timed := func(name string, f func()) {
		t0 := time.Now()
		f()
		c.res.Extra["seconds_"+name] = fmt.Sprintf("%.1f", time.Since(t0).Seconds())
	}
	timed("results_small", func() { h.resultsSmall(nSmall) })
	timed("results_field", func() { h.resultsField(nSmall, nMed) })
	timed("results_points", func() { h.resultsPoints(nMed, nBig) })
	timed("results_entry", func() { h.resultsEntry(nBig) })
	timed("trace_pairs", func() { h.tracePairs(nSmall, nMed, nBig) })
}

// ---- (a) results ------------------------------------------------------------------------------------

func (h *c08) resultsSmall(n int) {
	c := h.c
	cmp := func(a, b []byte, l int, class string) {
		impl := try(func() string { return fmt.Sprintf("ok %d", utils.ConstantTimeCmp(a, b, l)) })
		if impl == "panic" {
			return // out-of-range l: the IR has no panics for indices (stuck)
		}
		h.run("utils.ConstantTimeCmp", class, false, []string{vBytes(a), vBytes(b), fmt.Sprint(l)}, impl)
	}
	for l := 0; l <= 34; l++ {
		a, b := make([]byte, l), make([]byte, l)
		cmp(a, b, l, "equal")
		for i := 0; i < l; i += 1 + l/6 {
			for _, pat := range [][2]byte{{0, 0xff}, {0xff, 0}, {1, 0}, {0x7f, 0x80}} {
				a, b := make([]byte, l), make([]byte, l)
				a[i], b[i] = pat[0], pat[1]
				for j := i + 1; j < l; j++ {
					a[j], b[j] = pat[1], pat[0]
				}
				cmp(a, b, l, "directed")
			}
		}
	}
	for i := 0; i < n; i++ {
		l := c.rng.Intn(40)
		a, b := c.rng.Bytes(l+c.rng.Intn(3)), c.rng.Bytes(l+c.rng.Intn(3))
		copy(b[:c.rng.Intn(l+1)], a)
		cmp(a, b, l-c.rng.Intn(2)*c.rng.Intn(l+1), "random")
	}
	cmp([]byte{1}, []byte{2}, 0, "l=0")
	cmp([]byte{1}, []byte{2}, -3, "l<0")

	tpk := func(p []byte, class string) {
		h.run("sm2.TestPrivateKey", class, false, []string{vBytes(p)}, fmt.Sprintf("ok %d", sm2.TestPrivateKey(p)))
	}
	for l := 0; l <= 36; l++ {
		tpk(make([]byte, l), "zero")
		tpk(c.rng.Bytes(l), "len")
	}
	for d := int64(-3); d <= 3; d++ {
		tpk(be32(new(big.Int).Add(curveN, big.NewInt(d))), "near-n")
	}
	for i := 0; i < n; i++ {
		tpk(h.secretBytes(32, i), "random")
	}

	for i := 0; i < n; i++ {
		k := h.secretBytes(32, i)
		for _, sch := range [][4]int{{6, 3, 14, 4}, {5, 3, 17, 1}, {4, 2, 32, 0}, {7, 3, 12, 4}} {
			w, s, it, rem := sch[0], sch[1], sch[2], sch[3]
			idx := c.rng.Intn(it) + c.rng.Intn(s)*it + rem
			h.run("internal.extractHigherBits", fmt.Sprintf("w%d", w), false, []string{vBytes(k), fmt.Sprint(idx), fmt.Sprint(w), fmt.Sprint(s * it)},
				fmt.Sprintf("ok %d", sm2.VerifExtractHigherBits(k, idx, w, s*it)))
			if rem > 0 {
				h.run("internal.extractLowerBits", fmt.Sprintf("r%d", rem), false, []string{vBytes(k), fmt.Sprint(rem)}, fmt.Sprintf("ok %d", sm2.VerifExtractLowerBits(k, rem)))
			}
		}
		bit := c.rng.Intn(256)
		h.run("internal.extractBit", "bit", false, []string{vBytes(k), fmt.Sprint(bit)}, fmt.Sprintf("ok %d", sm2.VerifExtractHigherBits(k, bit, 1, 1)))
	}
}

func (h *c08) resultsField(n, nInv int) {
	c := h.c
	type fld struct {
		name, pfx string
		m         *big.Int
		op        func(string, *[4]uint64, *[4]uint64) [4]uint64
	}
	for _, f := range []fld{{"p", "fiat.sm2", curveP, sm2.VerifFieldOp}, {"n", "fiat.sm2Scalar", curveN, sm2.VerifScalarOp}} {
		z := "[0,0,0,0]"
		for i := 0; i < n; i++ {
			a, b := randCanon(c, f.m), randCanon(c, f.m)
			class := "canon"
			for _, op := range [][2]string{{"Mul", "mul"}, {"Add", "add"}, {"Sub", "sub"}} {
				h.run(f.pfx+op[0], class, i > 8, []string{z, vLimbs(a), vLimbs(b)}, "ok "+vLimbs(f.op(op[1], &a, &b)))
			}
			for _, op := range [][2]string{{"Square", "square"}, {"Opp", "opp"}, {"FromMontgomery", "frommont"}, {"ToMontgomery", "tomont"}} {
				h.run(f.pfx+op[0], class, i > 8, []string{z, vLimbs(a)}, "ok "+vLimbs(f.op(op[1], &a, &a)))
			}
			h.run(f.pfx+"Selectznz", "0", i > 2, []string{z, "0", vLimbs(a), vLimbs(b)}, "ok "+vLimbs(f.op("selectznz0", &a, &b)))
			h.run(f.pfx+"Selectznz", "1", i > 2, []string{z, "1", vLimbs(a), vLimbs(b)}, "ok "+vLimbs(f.op("selectznz1", &a, &b)))
			if f.name == "p" {
				tb := sm2.VerifFieldToBytes(&a)
				h.run(f.pfx+"ToBytes", class, i > 4, []string{vBytes(make([]byte, 32)), vLimbs(a)}, "ok "+vInts(tb[:]))
				h.run(f.pfx+"FromBytes", class, i > 4, []string{z, vBytes(tb[:])}, "ok "+vLimbs(sm2.VerifFieldFromBytes(&tb)))
			} else {
				tb := sm2.VerifScalarToBytes(&a)
				h.run(f.pfx+"ToBytes", class, i > 4, []string{vBytes(make([]byte, 32)), vLimbs(a)}, "ok "+vInts(tb[:]))
				h.run(f.pfx+"FromBytes", class, i > 4, []string{z, vBytes(tb[:])}, "ok "+vLimbs(sm2.VerifScalarFromBytes(&tb)))
			}
		}
		var zero [4]uint64
		h.run(f.pfx+"SetOne", "const", false, []string{z}, "ok "+vLimbs(f.op("one", &zero, &zero)))
		for i := 0; i < nInv/2; i++ {
			a := randCanon(c, f.m)
			h.run(f.pfx+"FermatInvert_FiatAC", "canon", i > 3, []string{z, vLimbs(a)}, "ok "+vLimbs(f.op("invert", &a, &a)))
		}
	}
	// element wrappers (field p): through the exported methods
	ze := "[[0,0,0,0]]"
	for i := 0; i < n; i++ {
		a, b := randCanon(c, curveP), randCanon(c, curveP)
		ea, eb := fieldElemRaw(a), fieldElemRaw(b)
		res := func(e *sm2.VerifElement) string { v := vElem(*e.GetRaw()); return "ok " + v + " " + v }
		h.run("fiat.SM2Element.Mul", "canon", i > 4, []string{ze, vElem(a), vElem(b)}, res(new(sm2.VerifElement).Mul(ea, eb)))
		h.run("fiat.SM2Element.Add", "canon", i > 4, []string{ze, vElem(a), vElem(b)}, res(new(sm2.VerifElement).Add(ea, eb)))
		h.run("fiat.SM2Element.Sub", "canon", i > 4, []string{ze, vElem(a), vElem(b)}, res(new(sm2.VerifElement).Sub(ea, eb)))
		h.run("fiat.SM2Element.Square", "canon", i > 4, []string{ze, vElem(a)}, res(new(sm2.VerifElement).Square(ea)))
		h.run("fiat.SM2Element.Opp", "canon", i > 4, []string{ze, vElem(a)}, res(new(sm2.VerifElement).Opp(ea)))
		h.run("fiat.SM2Element.Set", "canon", i > 4, []string{ze, vElem(a)}, res(new(sm2.VerifElement).Set(ea)))
		h.run("fiat.SM2Element.One", "const", i > 0, []string{vElem(a)}, res(fieldElemRaw(a).One()))
		h.run("fiat.SM2Element.SetRaw", "canon", i > 4, []string{ze, vLimbs(a)}, res(new(sm2.VerifElement).SetRaw(a)))
		h.run("fiat.SM2Element.GetRaw", "canon", i > 4, []string{vElem(a)}, "ok "+vLimbs(*ea.GetRaw()))
		for cond := 0; cond <= 1; cond++ {
			h.run("fiat.SM2Element.Select", fmt.Sprint(cond), i > 2, []string{ze, vElem(a), vElem(b), fmt.Sprint(cond)}, res(new(sm2.VerifElement).Select(ea, eb, cond)))
		}
		h.run("fiat.SM2Element.Bytes", "canon", i > 4, []string{vElem(a)}, "ok "+vInts(ea.Bytes()))
		h.run("fiat.SM2Element.IsZero", "canon", i > 4, []string{vElem(a)}, fmt.Sprintf("ok %d", ea.IsZero()))
		h.run("fiat.SM2Element.Equal", "ne", i > 4, []string{vElem(a), vElem(b)}, fmt.Sprintf("ok %d", ea.Equal(eb)))
		h.run("fiat.SM2Element.Equal", "eq", i > 4, []string{vElem(a), vElem(a)}, fmt.Sprintf("ok %d", ea.Equal(ea)))
		if i < 6 {
			h.run("fiat.SM2Element.Invert", "canon", i > 1, []string{ze, vElem(a)}, res(new(sm2.VerifElement).Invert(ea)))
		}
	}
	var zl [4]uint64
	h.run("fiat.SM2Element.IsZero", "zero", false, []string{vElem(zl)}, fmt.Sprintf("ok %d", fieldElemRaw(zl).IsZero()))
	// SetBytes of both fields: canonical, boundary, rejected encodings, wrong lengths
	setBytes := func(fld string, x []byte, class string) {
		if fld == "p" {
			e, err := new(sm2.VerifElement).SetBytes(x)
			impl := "ok [[0,0,0,0]] [[0,0,0,0]] 1"
			if err == nil {
				v := vElem(*e.GetRaw())
				impl = "ok " + v + " " + v + " 0"
			}
			h.run("fiat.SM2Element.SetBytes", class, false, []string{ze, vBytes(x)}, impl)
		} else {
			e, err := new(sm2.VerifScalarElement).SetBytes(x)
			impl := "ok [[0,0,0,0]] [[0,0,0,0]] 1"
			if err == nil {
				v := vElem(*e.VerifRaw())
				impl = "ok " + v + " " + v + " 0"
			}
			h.run("fiat.SM2ScalarElement.SetBytes", class, false, []string{ze, vBytes(x)}, impl)
		}
	}
	for _, fm := range []struct {
		f string
		m *big.Int
	}{{"p", curveP}, {"n", curveN}} {
		for d := int64(-3); d <= 3; d++ {
			setBytes(fm.f, be32(new(big.Int).Add(fm.m, big.NewInt(d))), "near-m")
		}
		for i := 0; i < n/2+4; i++ {
			setBytes(fm.f, h.secretBytes(32, i), "pattern")
		}
		for _, l := range []int{0, 1, 31, 33} {
			setBytes(fm.f, c.rng.Bytes(l), "len")
		}
	}
	// scalar element wrappers
	for i := 0; i < n/2+2; i++ {
		a, b := randCanon(c, curveN), randCanon(c, curveN)
		ea, eb := scalarElemRaw(a), scalarElemRaw(b)
		res := func(e *sm2.VerifScalarElement) string { v := vElem(*e.VerifRaw()); return "ok " + v + " " + v }
		h.run("fiat.SM2ScalarElement.Mul", "canon", i > 4, []string{ze, vElem(a), vElem(b)}, res(new(sm2.VerifScalarElement).Mul(ea, eb)))
		h.run("fiat.SM2ScalarElement.Add", "canon", i > 4, []string{ze, vElem(a), vElem(b)}, res(new(sm2.VerifScalarElement).Add(ea, eb)))
		h.run("fiat.SM2ScalarElement.Sub", "canon", i > 4, []string{ze, vElem(a), vElem(b)}, res(new(sm2.VerifScalarElement).Sub(ea, eb)))
		h.run("fiat.SM2ScalarElement.Square", "canon", i > 4, []string{ze, vElem(a)}, res(new(sm2.VerifScalarElement).Square(ea)))
		h.run("fiat.SM2ScalarElement.Set", "canon", i > 4, []string{ze, vElem(a)}, res(new(sm2.VerifScalarElement).Set(ea)))
		h.run("fiat.SM2ScalarElement.One", "const", i > 0, []string{vElem(a)}, res(scalarElemRaw(a).One()))
		for cond := 0; cond <= 1; cond++ {
			h.run("fiat.SM2ScalarElement.Select", fmt.Sprint(cond), i > 2, []string{ze, vElem(a), vElem(b), fmt.Sprint(cond)}, res(new(sm2.VerifScalarElement).Select(ea, eb, cond)))
		}
		h.run("fiat.SM2ScalarElement.Bytes", "canon", i > 4, []string{vElem(a)}, "ok "+vInts(ea.Bytes()))
		h.run("fiat.SM2ScalarElement.IsZero", "canon", i > 4, []string{vElem(a)}, fmt.Sprintf("ok %d", ea.IsZero()))
		h.run("fiat.SM2ScalarElement.Equal", "ne", i > 4, []string{vElem(a), vElem(b)}, fmt.Sprintf("ok %d", ea.Equal(eb)))
		if i < 6 {
			h.run("fiat.SM2ScalarElement.Invert", "canon", i > 1, []string{ze, vElem(a)}, res(new(sm2.VerifScalarElement).Invert(ea)))
		}
	}
}

// a point on the curve in projective coordinates with a random Z (computed by the implementation)
func (h *c08) randPoint(i int) *sm2.VerifPoint {
	p, err := sm2.VerifScalarBaseMult(h.validScalar(i))
	if err != nil {
		fatal("ScalarBaseMult: %v", err)
	}
	return p
}

func clonePoint(p *sm2.VerifPoint) *sm2.VerifPoint { return sm2.VerifNewPoint().Set(p) }

func (h *c08) resultsPoints(nMed, nBig int) {
	c := h.c
	inf := sm2.VerifNewPoint()
	h.run("internal.NewSM2Point", "const", false, nil, "ok "+vPoint(inf))
	two := func(p *sm2.VerifPoint) string { v := vPoint(p); return "ok " + v + " " + v }
	for i := 0; i < nMed; i++ {
		p, q := h.randPoint(i), h.randPoint(i+1)
		class := "generic"
		switch i % 4 {
		case 1:
			q = clonePoint(p) // doubling through Add
			class = "equal"
		case 2:
			q = sm2.VerifNewPoint().Negate(p) // sum = infinity
			class = "opposite"
		case 3:
			q = sm2.VerifNewPoint()
			class = "infinity"
		}
		h.run("internal.SM2Point.Add", class, false, []string{vZeroPoint, vPoint(p), vPoint(q)}, two(sm2.VerifNewPoint().Add(p, q)))
		h.run("internal.SM2Point.Double", class, i > 3, []string{vZeroPoint, vPoint(q)}, two(sm2.VerifNewPoint().Double(q)))
		h.run("internal.SM2Point.Negate", class, i > 1, []string{vZeroPoint, vPoint(p)}, two(sm2.VerifNewPoint().Negate(p)))
		h.run("internal.SM2Point.Set", class, i > 1, []string{vZeroPoint, vPoint(p)}, two(sm2.VerifNewPoint().Set(p)))
		for cond := 0; cond <= 1; cond++ {
			h.run("internal.SM2Point.Select", fmt.Sprint(cond), i > 1, []string{vZeroPoint, vPoint(p), vPoint(q), fmt.Sprint(cond)}, two(sm2.VerifNewPoint().Select(p, q, cond)))
		}
		if h.quick && i >= 4 {
			continue
		}
		// coordinate extraction: safe and unsafe variants agree with the implementation
		h.run("internal.SM2Point.GetAffineX", class, i > 3, []string{vPoint(q)}, "ok "+q.GetAffineX().String())
		h.run("internal.SM2Point.GetAffineX_Unsafe", class, i > 3, []string{vPoint(q)}, "ok "+q.GetAffineX_Unsafe().String())
		h.run("internal.SM2Point.Bytes", class, i > 3, []string{vPoint(q)}, "ok "+vInts(q.Bytes()))
		h.run("internal.SM2Point.Bytes_Unsafe", class, i > 3, []string{vPoint(q)}, "ok "+vInts(q.Bytes_Unsafe()))
	}
	three, twoT := sm2.VerifTables()
	// table selection: every window value on the three sub-tables of the 6-3-14 scheme and the remainder
	tab := three["sm2Precomputed_6_3_14"]
	for j := range tab {
		ts := vTable2(tab[j])
		for bits := 0; bits < 64; bits++ {
			if c.tier != "thorough" && bits > 3 && bits < 60 && bits%7 != j {
				continue
			}
			q := h.randPoint(bits)
			arg := vPoint(q)
			q.MultiSelectXY(&tab[j], 63, byte(bits))
			h.run("internal.SM2Point.MultiSelectXY", fmt.Sprintf("t%d/bits%d", j, bits), bits%16 != 0, []string{arg, ts, "63", fmt.Sprint(bits)}, two(q))
		}
	}
	rem := twoT["sm2Precomputed_6_3_14_Remainder"]
	for bits := 0; bits < 16; bits++ {
		q := sm2.VerifNewPoint()
		q.MultiSelectXY(&rem, 15, byte(bits))
		h.run("internal.SM2Point.MultiSelectXY", fmt.Sprintf("rem/bits%d", bits), bits > 1, []string{vPoint(sm2.VerifNewPoint()), vTable2(rem), "15", fmt.Sprint(bits)}, two(q))
	}
	// MultiSelectXYZ on the table TransformPrecomputed builds in ScalarMult is covered through ScalarMult
	for i := 0; i < nMed/2; i++ {
		k := h.secretBytes(32, i)
		p, err := sm2.VerifScalarBaseMult(k)
		impl := "ok " + vZeroPoint + " 1"
		if err == nil {
			impl = "ok " + vPoint(p) + " 0"
		}
		h.run("internal.ScalarBaseMult", fmt.Sprintf("pattern%d", i%6), false, []string{vBytes(k)}, impl)
	}
	for _, l := range []int{0, 31, 33} {
		k := c.rng.Bytes(l)
		_, err := sm2.VerifScalarBaseMult(k)
		h.run("internal.ScalarBaseMult", "len", false, []string{vBytes(k)}, "ok "+vZeroPoint+" "+errFlag(err))
	}
	for i, sch := range []string{"5_3_17", "4_2_32", "7_3_12", "6_3_14"} {
		for r := 0; r < 1+nBig/3; r++ {
			k := h.secretBytes(32, i+r)
			p, err := sm2.VerifScalarBaseMultScheme(sch, k)
			if err != nil {
				continue
			}
			h.run("internal.scalarBaseMult_SkipBitExtraction_"+sch, "pattern", false, []string{vBytes(k)}, "ok "+vPoint(p)+" 0")
		}
	}
	for i := 0; i < nBig; i++ {
		P := h.randPoint(i)
		k := h.secretBytes(32, i+2)
		if i%3 == 1 {
			k = h.secretBytes(5, 4) // any length is accepted
		}
		if i%3 == 2 {
			k = h.secretBytes(2, 1)
		}
		r, err := sm2.VerifScalarMult(P, k)
		h.run("internal.ScalarMult", fmt.Sprintf("len%d", len(k)), false, []string{vPoint(P), vBytes(k)}, "ok "+vPoint(r)+" "+errFlag(err))
	}
}

func vTape(chunks ...[]byte) string {
	var all []byte
	for _, c := range chunks {
		all = append(all, c...)
	}
	return fmt.Sprintf("tape=x%x", all)
}

func (h *c08) resultsEntry(nBig int) {
	zero := make([]byte, 32)
	ff := make([]byte, 32)
	for i := range ff {
		ff[i] = 0xff
	}
	nb := be32(curveN)
	nm1 := be32(new(big.Int).Sub(curveN, big.NewInt(1)))
	for i := 0; i < nBig+1; i++ {
		priv := h.validScalar(i)
		x, y, err := sm2.DerivePublic(priv)
		h.run("sm2.DerivePublic", fmt.Sprintf("pattern%d", i%6), false, []string{vBytes(priv)}, "ok "+vInts(x)+" "+vInts(y)+" "+errFlag(err))
		if h.quick && i >= 2 {
			continue
		}
		// GenerateKey / SignHashed: the reader is the public handle 1; what it delivers is the driver's tape,
		// 32 bytes per read.  i = 0: no rejected candidate; i = 1: rejected candidates first (redraws / retries)
		keys := [][]byte{priv}
		nonces := [][]byte{h.validScalar(i + 3)}
		class := "valid"
		if i%2 == 1 {
			keys = [][]byte{zero, nm1, ff, priv}
			nonces = [][]byte{ff, zero, nb, nonces[0]}
			class = "retries"
		}
		p2, gx, gy, err := sm2.GenerateKey(&scriptReader{items: dataScript(keys...)})
		h.run("sm2.GenerateKey", class, false, []string{vTape(keys...), "1"}, "ok "+vInts(p2)+" "+vInts(gx)+" "+vInts(gy)+" "+errFlag(err))
		e := h.c.rng.Bytes(32)
		r, s, err := sm2.SignHashed(&scriptReader{items: dataScript(nonces...)}, priv, e)
		h.run("sm2.SignHashed", class, false, []string{vTape(nonces...), "1", vBytes(priv), vBytes(e)}, "ok "+vInts(r)+" "+vInts(s)+" "+errFlag(err))
	}
}

// ---- (b) trace pairs -----------------------------------------------------------------------------------

func (h *c08) tracePairs(nSmall, nMed, nBig int) {
	c := h.c
	ze := "[[0,0,0,0]]"
	z4 := "[0,0,0,0]"
	// comparison of secret byte strings (public length)
	for i := 0; i < nSmall; i++ {
		l := 1 + c.rng.Intn(33)
		a1, b1, a2, b2 := h.secretBytes(l, i), h.secretBytes(l, i+1), h.secretBytes(l, i+2), h.secretBytes(l, i+3)
		h.pair("utils.ConstantTimeCmp", "patterns", []string{vBytes(a1), vBytes(b1), fmt.Sprint(l)}, []string{vBytes(a2), vBytes(b2), fmt.Sprint(l)}, "")
		// same verdict forced: compare both with a larger constant
		top := make([]byte, l)
		for j := range top {
			top[j] = 0xff
		}
		a1[0] &= 0x7f
		a2[0] &= 0x7f
		h.pair("utils.ConstantTimeCmp", "less", []string{vBytes(a1), vBytes(top), fmt.Sprint(l)}, []string{vBytes(a2), vBytes(top), fmt.Sprint(l)}, "")
	}
	// range test of a private key
	for i := 0; i < nSmall; i++ {
		h.pair("sm2.TestPrivateKey", "valid", []string{vBytes(h.validScalar(i))}, []string{vBytes(h.validScalar(i + 1))}, "")
		l := c.rng.Intn(32)
		p1, p2 := h.secretBytes(l, i), h.secretBytes(l, i+1)
		if l > 0 {
			p1[l-1] |= 1
			p2[0] |= 0x80
		}
		h.pair("sm2.TestPrivateKey", "short", []string{vBytes(p1)}, []string{vBytes(p2)}, "")
	}
	// bit extraction
	for i := 0; i < nSmall; i++ {
		k1, k2 := h.secretBytes(32, i), h.secretBytes(32, i+1)
		idx := c.rng.Intn(14) + c.rng.Intn(3)*14 + 4
		h.pair("internal.extractHigherBits", "6_3_14", []string{vBytes(k1), fmt.Sprint(idx), "6", "42"}, []string{vBytes(k2), fmt.Sprint(idx), "6", "42"}, "")
		h.pair("internal.extractLowerBits", "r4", []string{vBytes(k1), "4"}, []string{vBytes(k2), "4"}, "")
		bit := fmt.Sprint(c.rng.Intn(256))
		h.pair("internal.extractBit", "bit", []string{vBytes(k1), bit}, []string{vBytes(k2), bit}, "")
	}
	// table selection: every window value against window value 0
	three, twoT := sm2.VerifTables()
	tab := three["sm2Precomputed_6_3_14"]
	q := vPoint(h.randPoint(0))
	for j := range tab {
		ts := vTable2(tab[j])
		for bits := 1; bits < 64; bits++ {
			if c.tier != "thorough" && j > 0 && bits%5 != 0 {
				continue
			}
			h.pair("internal.SM2Point.MultiSelectXY", fmt.Sprintf("t%d", j), []string{q, ts, "63", "0"}, []string{q, ts, "63", fmt.Sprint(bits)}, "")
			if j == 0 {
				h.pair("internal.selectPoints", "t0", []string{q, ts, "63", "0"}, []string{q, ts, "63", fmt.Sprint(bits)}, "")
			}
		}
	}
	rem := vTable2(twoT["sm2Precomputed_6_3_14_Remainder"])
	for bits := 1; bits < 16; bits++ {
		h.pair("internal.SM2Point.MultiSelectXY", "rem", []string{q, rem, "15", "0"}, []string{q, rem, "15", fmt.Sprint(bits)}, "")
	}
	// MultiSelectXYZ / MultiSelect on a table of projective points (three coordinate rows)
	xyz := "[" + vTable2(tab[0])[1:len(vTable2(tab[0]))-1] + "," + vTable2(tab[1][:1])[1:]
	for bits := 1; bits < 64; bits += 3 {
		h.pair("internal.SM2Point.MultiSelectXYZ", "t0", []string{q, xyz, "63", "0"}, []string{q, xyz, "63", fmt.Sprint(bits)}, "")
		row := "[" + strings.TrimSuffix(strings.TrimPrefix(vTable2(tab[0][:1]), "[["), "]]") + "]"
		h.pair("fiat.SM2Element.MultiSelect", "row", []string{ze, row, "63", "0", ze, "1"}, []string{ze, row, "63", fmt.Sprint(bits), vElem(randCanon(c, curveP)), "0"}, "")
	}
	// field / scalar arithmetic, primitives and wrappers
	for _, f := range []struct {
		pfx, el string
		m       *big.Int
	}{{"fiat.sm2", "fiat.SM2Element", curveP}, {"fiat.sm2Scalar", "fiat.SM2ScalarElement", curveN}} {
		for i := 0; i < nMed; i++ {
			a1, b1, a2, b2 := randCanon(c, f.m), randCanon(c, f.m), randCanon(c, f.m), randCanon(c, f.m)
			for _, op := range []string{"Mul", "Add", "Sub"} {
				h.pair(f.pfx+op, "canon", []string{z4, vLimbs(a1), vLimbs(b1)}, []string{z4, vLimbs(a2), vLimbs(b2)}, "")
				h.pair(f.el+"."+op, "canon", []string{ze, vElem(a1), vElem(b1)}, []string{ze, vElem(a2), vElem(b2)}, "")
			}
			for _, op := range []string{"Square", "Opp", "FromMontgomery", "ToMontgomery"} {
				h.pair(f.pfx+op, "canon", []string{z4, vLimbs(a1)}, []string{z4, vLimbs(a2)}, "")
			}
			h.pair(f.pfx+"Selectznz", "cond", []string{z4, "0", vLimbs(a1), vLimbs(b1)}, []string{z4, "1", vLimbs(a2), vLimbs(b2)}, "")
			h.pair(f.el+".Select", "cond", []string{ze, vElem(a1), vElem(b1), "0"}, []string{ze, vElem(a2), vElem(b2), "1"}, "")
			h.pair(f.el+".Square", "canon", []string{ze, vElem(a1)}, []string{ze, vElem(a2)}, "")
			h.pair(f.el+".Set", "canon", []string{ze, vElem(a1)}, []string{ze, vElem(a2)}, "")
			h.pair(f.el+".Bytes", "canon", []string{vElem(a1)}, []string{vElem(a2)}, "")
			h.pair(f.el+".IsZero", "canon", []string{vElem(a1)}, []string{vElem(a2)}, "")
			h.pair(f.el+".Equal", "canon", []string{vElem(a1), vElem(b1)}, []string{vElem(a2), vElem(b2)}, "")
			h.pair(f.pfx+"ToBytes", "canon", []string{vBytes(make([]byte, 32)), vLimbs(a1)}, []string{vBytes(make([]byte, 32)), vLimbs(a2)}, "")
			h.pair(f.pfx+"FromBytes", "canon", []string{z4, vBytes(h.secretBytes(32, i))}, []string{z4, vBytes(h.secretBytes(32, i+1))}, "")
			if i < 1 {
				var one, zero [4]uint64
				one[0] = 1
				h.pair(f.el+".Invert", "canon", []string{ze, vElem(a1)}, []string{ze, vElem(a2)}, "")
				h.pair(f.el+".Invert", "zero-one", []string{ze, vElem(zero)}, []string{ze, vElem(one)}, "")
			}
		}
	}
	h.pair("fiat.SM2Element.Opp", "canon", []string{ze, vElem(randCanon(c, curveP))}, []string{ze, vElem(randCanon(c, curveP))}, "")
	// SetBytes of both fields; for the scalar field also inputs that agree with n-1 on a long prefix
	// (the former early-exit loop ran longer on them)
	for i := 0; i < nMed; i++ {
		v1 := be32(new(big.Int).Mod(new(big.Int).SetBytes(h.secretBytes(32, i)), curveN))
		v2 := be32(new(big.Int).Mod(new(big.Int).SetBytes(h.secretBytes(32, i+1)), curveN))
		h.pair("fiat.SM2Element.SetBytes", "valid", []string{ze, vBytes(v1)}, []string{ze, vBytes(v2)}, "")
		if i < 4 {
			// agree with n-1 on 4i+4 leading bytes: the early-exit loop runs that much longer
			v2 = be32(new(big.Int).Sub(curveN, big.NewInt(1)))
			for j := 4*i + 4; j < 32; j++ {
				v2[j] = 0
			}
			h.pair("fiat.SM2ScalarElement.SetBytes", "valid", []string{ze, vBytes(v1)}, []string{ze, vBytes(v2)}, "")
		}
	}
	// point arithmetic, coordinate extraction (safe variants)
	for i := 0; i < nMed; i++ {
		p1, q1, p2, q2 := h.randPoint(i), h.randPoint(i+1), h.randPoint(i+2), h.randPoint(i+3)
		if i%3 == 1 {
			q1 = clonePoint(p1) // P + P against generic
		}
		if i%3 == 2 {
			q1 = sm2.VerifNewPoint() // P + O against generic
		}
		h.pair("internal.SM2Point.Add", fmt.Sprintf("case%d", i%3), []string{vZeroPoint, vPoint(p1), vPoint(q1)}, []string{vZeroPoint, vPoint(p2), vPoint(q2)}, "")
		h.pair("internal.SM2Point.Double", fmt.Sprintf("case%d", i%3), []string{vZeroPoint, vPoint(q1)}, []string{vZeroPoint, vPoint(q2)}, "")
		h.pair("internal.SM2Point.Negate", "generic", []string{vZeroPoint, vPoint(p1)}, []string{vZeroPoint, vPoint(p2)}, "")
		h.pair("internal.SM2Point.Set", "generic", []string{vZeroPoint, vPoint(p1)}, []string{vZeroPoint, vPoint(p2)}, "")
		h.pair("internal.SM2Point.Select", "generic", []string{vZeroPoint, vPoint(p1), vPoint(q1), "0"}, []string{vZeroPoint, vPoint(p2), vPoint(q2), "1"}, "")
		if i < 1 {
			h.pair("internal.SM2Point.GetAffineX", "finite", []string{vPoint(p1)}, []string{vPoint(p2)}, "")
			h.pair("internal.SM2Point.Bytes", "finite", []string{vPoint(p1)}, []string{vPoint(p2)}, "")
		}
	}
	// scalar multiplications: leading zero / 0xFF bytes, 1, n-1, random
	ks := [][]byte{be32(big.NewInt(1)), be32(new(big.Int).Sub(curveN, big.NewInt(1))), make([]byte, 32)}
	for i := 0; i < nMed/3; i++ {
		ks = append(ks, h.secretBytes(32, i))
	}
	for i := 1; i < len(ks); i++ {
		h.pair("internal.ScalarBaseMult", "patterns", []string{vBytes(ks[0])}, []string{vBytes(ks[i])}, "")
	}
	for _, sch := range []string{"5_3_17", "4_2_32", "7_3_12"} {
		h.pair("internal.scalarBaseMult_SkipBitExtraction_"+sch, "patterns", []string{vBytes(ks[0])}, []string{vBytes(ks[3])}, "")
	}
	P1, P2 := h.randPoint(1), h.randPoint(2)
	for i := 0; i < nBig; i++ {
		k1, k2 := ks[i], ks[len(ks)-1-i]
		if i == 0 && h.quick { // quick tier: 12-byte scalars (the 32-byte case is compared functionally above)
			k1, k2 = h.secretBytes(12, 1), h.secretBytes(12, 0)
		}
		if i > 0 { // the cost is proportional to the length: one pair of long scalars, the others short
			l := 1 + i%3
			k1, k2 = h.secretBytes(l, i+2), h.secretBytes(l, i)
		}
		h.pair("internal.ScalarMult", fmt.Sprintf("len%d", len(k1)), []string{vPoint(P1), vBytes(k1)}, []string{vPoint(P2), vBytes(k2)}, "")
	}
	// entry points: two keys / two nonce streams, delivered by the two external worlds (the driver's
	// tape, 32 bytes per read); the reader handle is the same public value.  Streams with 0, 1 and 2
	// rejected candidates first — rejected at the same positions for the same reason, so that the
	// verdict lists are equal.
	zero := make([]byte, 32)
	ff := make([]byte, 32)
	for i := range ff {
		ff[i] = 0xff
	}
	nb := be32(curveN)
	nm1 := be32(new(big.Int).Sub(curveN, big.NewInt(1)))
	np5 := be32(new(big.Int).Add(curveN, big.NewInt(5)))
	d1, d2 := h.validScalar(0), h.validScalar(4)
	h.pair("sm2.DerivePublic", "keys", []string{vBytes(d1)}, []string{vBytes(d2)}, "")
	h.pair("sm2.GenerateKey", "keys", []string{vTape(d1), "1"}, []string{vTape(d2), "1"}, "")
	h.pair("sm2.GenerateKey", "redraw1", []string{vTape(nm1, d1), "1"}, []string{vTape(ff, d2), "1"}, "")
	h.pair("sm2.GenerateKey", "redraw2", []string{vTape(zero, nb, d1), "1"}, []string{vTape(zero, np5, d2), "1"}, "")
	// SignHashed: what remains of the math/big shapes is ensure32Bytes on the OUTPUTS r and s: the byte
	// lengths of r and s are declassified (site 14: public outputs), so pairs on which they differ have
	// different verdict lists and are skipped by `pair` itself (a leading zero byte, probability 1/128).
	e := c.rng.Bytes(32)
	pre := [][2][][]byte{{nil, nil}, {{ff}, {nb}}, {{np5, zero}, {ff, zero}}}
	for v, pp := range pre {
		for i, done := 0, false; i < 20 && !done; i++ {
			K1, K2 := h.validScalar(5+i+v), h.validScalar(2+i+v)
			s1 := append(append([][]byte{}, pp[0]...), K1)
			s2 := append(append([][]byte{}, pp[1]...), K2)
			done = h.pair("sm2.SignHashed", fmt.Sprintf("retries%d", v), []string{vTape(s1...), "1", vBytes(d1), vBytes(e)}, []string{vTape(s2...), "1", vBytes(d1), vBytes(e)}, "")
		}
	}
}

func init() { runners["C08"] = runC08 }
