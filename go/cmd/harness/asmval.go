package main

// Three-way comparison for the GCM assembly routines of sm4/gcm_amd64.s:
//
//	real CPU (hooks VerifGHashBlocks / VerifSealAsm / VerifOpenAsm)
//	  vs the regenerated LISTING of the routine run by the value interpreter of
//	     /verif/lean/SMGo/Model/ISAVal.lean (driver requests asm.ghash / asm.seal / asm.open)
//	  vs the specification (gcm.ghash.spec / gcm.seal.spec / gcm.open.spec).
//
// A disagreement between the CPU and the interpreter means that the instruction semantics (or an
// operand order) of ISAVal.lean is wrong, or that the routine depends on something the interpreter
// does not model (initial register contents, memory outside the argument buffers).
// Streams: asm.ghash, asm.seal, asm.open.  Called at the end of runC05; also `-property C05asm`.

import (
	"fmt"
	"runtime"

	"github.com/bilibili/smgo/sm4"
)

func runAsmValGCM(c *Ctx) {
	if runtime.GOARCH != "amd64" || !sm4.VerifCandoAsm() {
		c.res.Notes = append(c.res.Notes, "asmval: the amd64 assembly path is not available on this machine; listing comparisons skipped")
		return
	}
	thorough := c.tier == "thorough"

	// ---- gHashBlocks(H, tag, data, count): tag := GHASH_H continued from tag over count blocks ----
	nmax := 40
	if thorough {
		nmax = 140
	}
	// (count = 0 is outside the routine's domain: with count < 8 it enters the do-while loop `loopBy1`
	// and hashes one block, as the interpreter shows by reading 16 bytes of an empty data region.)
	for n := 1; n <= nmax; n++ {
		H := c.rng.Bytes(16)
		tag0 := c.rng.Bytes(16)
		if n%5 == 0 {
			tag0 = make([]byte, 16)
		}
		data := c.rng.Bytes(16 * n)
		tag := append([]byte(nil), tag0...)
		buf := append([]byte(nil), data...)
		sm4.VerifGHashBlocks(&H[0], &tag[0], &buf[0], n)
		impl := fmt.Sprintf("ok %x", tag)
		cl := fmt.Sprintf("ghash/n=%s", lenClass(16*n))
		req := fmt.Sprintf("asm.ghash %x %x %s", H, tag0, hexOrDash(data))
		c.Case("asm.ghash", cl, false, req)
		// continuing from tag0 is hashing with the first block XORed by tag0
		x := append([]byte(nil), data...)
		for i := 0; i < 16; i++ {
			x[i] ^= tag0[i]
		}
		c.Check3("asm.ghash", cl, req, fmt.Sprintf("gcm.ghash.spec %x %x", H, x), impl)
		// the arm64 listing of gHashBlocks under the (unvalidated) arm64 value semantics, against the specification
		if n <= 20 || n%7 == 0 {
			areq := fmt.Sprintf("asm64.ghash %x %x %s", H, tag0, hexOrDash(data))
			sreq := fmt.Sprintf("gcm.ghash.spec %x %x", H, x)
			c.Case("asm64.ghash", "arm64-listing/"+cl, false, areq)
			if model, spec := c.drv.Ask(areq), c.drv.Ask(sreq); model != spec {
				c.Disagree(Disagreement{Kind: "model!=spec", Class: "arm64-listing/" + cl, Request: areq, SpecReq: sreq, Model: model, Spec: spec, Stream: "asm64.ghash"})
			}
		}
	}
	// arm64 xorN leaf routines (listing under the arm64 value semantics) against bytewise XOR, in the three calling shapes
	for _, n := range []int{16, 32, 64, 128, 256} {
		for _, shape := range []string{"", " dst1", " dst2"} {
			a, b := c.rng.Bytes(n), c.rng.Bytes(n)
			want := make([]byte, n)
			for i := range want {
				want[i] = a[i] ^ b[i]
			}
			areq := fmt.Sprintf("asm64.xor %d %x %x%s", n, a, b, shape)
			c.Case("asm64.xor", fmt.Sprintf("arm64-listing/xor%d%s", n, shape), false, areq)
			if model := c.drv.Ask(areq); model != fmt.Sprintf("ok %x", want) {
				c.Disagree(Disagreement{Kind: "model!=spec", Class: fmt.Sprintf("arm64-listing/xor%d%s", n, shape), Request: areq, Model: model, Spec: fmt.Sprintf("ok %x", want), Stream: "asm64.xor"})
			}
		}
	}

	// ---- sealAsm / openAsm ----
	type gcase struct {
		pl, al, nl, ts int
		inplace        bool
	}
	var cases []gcase
	aadLens := []int{0, 1, 15, 16, 17, 63, 64, 65, 127, 128, 129, 300}
	step := 1
	for pl := 0; pl <= 600; pl += step {
		if pl >= 130 && !thorough {
			step = 13
		}
		nl := 12
		if pl%6 == 5 {
			nl = []int{1, 8, 16, 17, 100}[pl/6%5]
		}
		cases = append(cases, gcase{pl, aadLens[pl%len(aadLens)], nl, 12 + pl%5, pl%4 == 3})
	}
	for _, pl := range []int{255, 256, 257, 511, 512, 513, 767, 768, 1024, 1100} {
		cases = append(cases, gcase{pl, 20, 12, 16, false})
	}
	for i, g := range cases {
		key := c.rng.Bytes(16)
		var enc, dec [32]uint32
		sm4.VerifExpandKey(key, &enc, &dec)
		rkHex := wordsHex(enc[:])
		nonce, aad, pt := c.rng.Bytes(g.nl), c.rng.Bytes(g.al), c.rng.Bytes(g.pl)
		dstLen := g.pl + g.ts
		// seal
		var temp [32]byte
		dst := make([]byte, dstLen)
		ptArg := append([]byte(nil), pt...)
		if g.inplace {
			copy(dst, pt)
			ptArg = dst[:g.pl]
		}
		sm4.VerifSealAsm(&enc[0], g.ts, &dst[0], nonce, ptArg, aad, &temp[0])
		impl := fmt.Sprintf("ok %x", dst)
		cl := fmt.Sprintf("seal/pt=%s/aad=%s/n%d/t%d/inplace=%v", lenClass(g.pl), lenClass(g.al), g.nl, g.ts, g.inplace)
		req := fmt.Sprintf("asm.seal %s %d %x %s %s %d", rkHex, g.ts, nonce, hexOrDash(pt), hexOrDash(aad), dstLen)
		if g.inplace {
			req += " inplace"
		}
		sreq := fmt.Sprintf("gcm.seal.spec %x %x %s %s %d", key, nonce, hexOrDash(aad), hexOrDash(pt), g.ts)
		c.Case("asm.seal", cl, false, req)
		c.Check3("asm.seal", cl, req, sreq, impl)

		// open: the sealed message, and (two cases out of three) a tampered one
		ct := append([]byte(nil), dst...)
		kind := "valid"
		switch i % 3 {
		case 1:
			kind = "tagflip"
			ct[g.pl+c.rng.Intn(g.ts)] ^= 1 << uint(c.rng.Intn(8))
		case 2:
			if g.pl > 0 {
				kind = "ctflip"
				ct[c.rng.Intn(g.pl)] ^= 1 << uint(c.rng.Intn(8))
			} else if g.al > 0 {
				kind = "aadflip"
				aad = append([]byte(nil), aad...)
				aad[c.rng.Intn(g.al)] ^= 1 << uint(c.rng.Intn(8))
			}
		}
		var temp2 [32]byte
		ctArg := append([]byte(nil), ct...)
		out := make([]byte, g.pl)
		outAll := out // what the interpreter prints as the dst region
		if g.inplace {
			outAll = ctArg
			out = ctArg[:g.pl]
		}
		var outp *byte
		if g.pl > 0 {
			outp = &out[0]
		}
		ret := sm4.VerifOpenAsm(&enc[0], g.ts, outp, nonce, ctArg, aad, &temp2[0])
		ctAfter := ctArg
		if g.inplace {
			ctAfter = ct // the interpreter's separate "cipher" region is not used in place: it stays as given
		}
		oimpl := fmt.Sprintf("ok %d %s %s", ret, hexOrDash(outAll), hexOrDash(ctAfter))
		odst := g.pl
		if g.inplace {
			odst = len(ct)
		}
		oreq := fmt.Sprintf("asm.open %s %d %x %s %s %d", rkHex, g.ts, nonce, hexOrDash(ct), hexOrDash(aad), odst)
		if g.inplace {
			oreq += " inplace"
		}
		ocl := fmt.Sprintf("open/%s/pt=%s/aad=%s/n%d/t%d/inplace=%v/ret=%d", kind, lenClass(g.pl), lenClass(g.al), g.nl, g.ts, g.inplace, ret)
		c.Case("asm.open", ocl, false, oreq)
		c.CheckModel("asm.open", ocl, oreq, oimpl)
		view := "err"
		if ret == 1 {
			view = "ok " + hexOrDash(out)
		}
		osreq := fmt.Sprintf("gcm.open.spec %x %x %s %s %d", key, nonce, hexOrDash(aad), hexOrDash(ct), g.ts)
		c.CheckSpec("asm.open", ocl, oreq, osreq, view)
	}
}

func init() {
	runners["C05asm"] = runAsmValGCM
}
