package main

import (
	"crypto/cipher"
	"fmt"
	"runtime/debug"
	"syscall"
	"unsafe"

	"github.com/bilibili/smgo/sm4"
)

// guardRegion maps [PROT_NONE page][n data pages][PROT_NONE page] and hands out slices that end
// exactly at the end of the data pages (right guard) or start exactly at their beginning (left guard).
type guardRegion struct {
	all  []byte
	page int
	n    int
}

func newGuard(pages int) *guardRegion {
	ps := syscall.Getpagesize()
	all, err := syscall.Mmap(-1, 0, (pages+2)*ps, syscall.PROT_READ|syscall.PROT_WRITE, syscall.MAP_ANON|syscall.MAP_PRIVATE)
	if err != nil {
		fatal("mmap: %v", err)
	}
	if err := syscall.Mprotect(all[:ps], syscall.PROT_NONE); err != nil {
		fatal("mprotect: %v", err)
	}
	if err := syscall.Mprotect(all[(pages+1)*ps:], syscall.PROT_NONE); err != nil {
		fatal("mprotect: %v", err)
	}
	return &guardRegion{all: all, page: ps, n: pages}
}

// right returns a slice of length l (cap l) whose last byte is the last accessible byte.
func (g *guardRegion) right(l int) []byte {
	end := (g.n + 1) * g.page
	return g.all[end-l : end : end]
}

// left returns a slice of length l whose first byte is the first accessible byte.
func (g *guardRegion) left(l int) []byte {
	return g.all[g.page : g.page+l : g.page+l]
}

func (g *guardRegion) free() { syscall.Munmap(g.all) }

// tryFault runs f; a fault (turned into a panic by SetPanicOnFault) or a Go panic is reported.
func tryFault(f func()) (res string) {
	defer func() {
		if r := recover(); r != nil {
			if e, ok := r.(interface{ Addr() uintptr }); ok {
				res = fmt.Sprintf("fault@%#x", e.Addr())
				return
			}
			res = "panic"
		}
	}()
	f()
	return "ok"
}

func runC11(c *Ctx) {
	c.res.Rule = "every pointer argument of the public Block/AEAD methods and of every assembly routine placed so that it ends exactly at the end of mapped memory (PROT_NONE page behind it) and, separately, starts at the beginning (PROT_NONE page before it): Seal/Open for every plaintext/aad length 0..L (L = 300 quick, 1100 thorough), nonce lengths 1..40, tags 12..16; kernels X1..X16, expandKeyAsm, gHashBlocks, sealAsm/openAsm with the 128-byte round-key array against the guard; short-buffer misuse of Encrypt/Decrypt (lengths 0..15, with and without capacity) must panic; a fault or a silent out-of-range access is a violation; class = (routine, argument at the guard, length class)"
	debug.SetPanicOnFault(true)
	L := 300
	if c.tier == "thorough" {
		L = 1100
	}
	asmOK := sm4.VerifCandoAsm()
	paths := gcmPaths()
	report := func(cl, req, got, want string) {
		c.Case("mem.guard", cl, false, req)
		if got != want {
			c.Disagree(Disagreement{Kind: "impl!=spec", Class: cl, Request: req, Impl: got, Spec: want, Stream: "mem.guard"})
		}
	}
	gIn, gDst, gAad, gNonce, gKey := newGuard(2), newGuard(2), newGuard(2), newGuard(1), newGuard(1)
	defer gIn.free()
	defer gDst.free()
	defer gAad.free()
	defer gNonce.free()
	defer gKey.free()
	for _, p := range paths {
		for _, side := range []string{"right", "left"} {
			place := func(g *guardRegion, b []byte) []byte {
				var s []byte
				if side == "right" {
					s = g.right(len(b))
				} else {
					s = g.left(len(b))
				}
				copy(s, b)
				return s
			}
			for pl := 0; pl <= L; pl++ {
				if side == "left" && pl%7 != 0 {
					continue
				}
				ts := 12 + pl%5
				al := []int{0, 1, 15, 16, 17, 129}[pl%6]
				nl := 12
				if pl%9 == 8 {
					nl = 1 + pl%40
				}
				key := c.rng.Bytes(16)
				a, err := p.mk(key, nl, ts)
				if a == nil || err != nil {
					continue
				}
				pt, aad, nonce := place(gIn, c.rng.Bytes(pl)), place(gAad, c.rng.Bytes(al)), place(gNonce, c.rng.Bytes(nl))
				var dst []byte
				if side == "right" {
					dst = gDst.right(pl + ts)[:0]
				} else {
					dst = gDst.left(pl + ts)[:0]
				}
				var ct []byte
				cl := fmt.Sprintf("seal/%s/%s/pt=%s/t%d", p.name, side, lenClass(pl), ts)
				req := fmt.Sprintf("guard seal path=%s side=%s pt=%d aad=%d nonce=%d tag=%d", p.name, side, pl, al, nl, ts)
				got := tryFault(func() { ct = a.Seal(dst, nonce, pt, aad) })
				if got == "ok" && (len(ct) != pl+ts || cap(ct) < len(ct) || (pl+ts > 0 && &ct[0] != &dst[:1][0])) {
					// a slice header that is not dst extended by pl+ts bytes: the call scribbled over its own frame
					got = fmt.Sprintf("corrupt-result len=%d cap=%d", len(ct), cap(ct))
				}
				report(cl, req, got, "ok")
				if got != "ok" {
					continue
				}
				// Open with the ciphertext against the guard
				ctG := place(gIn, ct)
				var dst2 []byte
				if pl > 0 {
					if side == "right" {
						dst2 = gDst.right(pl)[:0]
					} else {
						dst2 = gDst.left(pl)[:0]
					}
				}
				cl = fmt.Sprintf("open/%s/%s/pt=%s/t%d", p.name, side, lenClass(pl), ts)
				req = fmt.Sprintf("guard open path=%s side=%s pt=%d aad=%d nonce=%d tag=%d", p.name, side, pl, al, nl, ts)
				got = tryFault(func() {
					if _, err := a.Open(dst2, nonce, ctG, aad); err != nil {
						panic("open failed")
					}
				})
				report(cl, req, got, "ok")
			}
		}
	}
	// ciphertexts shorter than the tag, against the guard on either side, with a non-empty dst: must be an
	// error without touching anything around the ciphertext
	for _, p := range paths {
		for ts := 12; ts <= 16; ts++ {
			a, err := p.mk(c.rng.Bytes(16), 12, ts)
			if a == nil || err != nil {
				continue
			}
			for l := 0; l < ts; l++ {
				for _, side := range []string{"left", "right"} {
					var ct []byte
					if side == "left" {
						ct = gIn.left(l)
					} else {
						ct = gIn.right(l)
					}
					copy(ct, c.rng.Bytes(l))
					for _, dl := range []int{0, 5, 16, 40} {
						dst := append(make([]byte, 0, dl+64), c.rng.Bytes(dl)...)
						nonce := gNonce.right(12)
						got := tryFault(func() {
							if _, err := a.Open(dst, nonce, ct, nil); err == nil {
								panic("accepted")
							}
						})
						report(fmt.Sprintf("open-short/%s/%s/t%d", p.name, side, ts), fmt.Sprintf("guard open-short path=%s side=%s ct=%d tag=%d dst=%d", p.name, side, l, ts, dl), got, "ok")
					}
				}
			}
		}
	}
	// the cipher's own NewGCM hook called directly (what crypto/cipher calls after validating the sizes): every
	// (nonceSize, tagSize) it ACCEPTS must be memory safe; sizes outside 12..16 / non-positive nonce sizes must be refused
	if asmOK {
		blk, _ := sm4.NewCipher(c.rng.Bytes(16))
		if ga, ok := blk.(gcmAbleIface); ok {
			for ts := 0; ts <= 40; ts++ {
				for _, ns := range []int{12, 0, -1} {
					if ns != 12 && ts != 16 {
						continue
					}
					a, err := ga.NewGCM(ns, ts)
					cl := fmt.Sprintf("newgcm/tag%d/nonce%d", bucket(ts), ns)
					req := fmt.Sprintf("guard NewGCM nonceSize=%d tagSize=%d", ns, ts)
					valid := ts >= 12 && ts <= 16 && ns > 0
					if err != nil || a == nil {
						report(cl, req, "refused", map[bool]string{true: "ok", false: "refused"}[valid])
						continue
					}
					if !valid {
						// accepted although invalid: then it must at least be memory safe and not silently wrong
						pt, nonce := gIn.right(20), gNonce.right(12)
						if ns <= 0 {
							nonce = nonce[:0]
						}
						dst := gDst.right(20 + ts)[:0]
						got := tryFault(func() { a.Seal(dst, nonce, pt, nil) })
						report(cl, req, "accepted-invalid-sizes/"+got, "refused")
					} else {
						report(cl, req, "ok", "ok")
					}
				}
			}
		}
	}
	// Block methods: exact 16-byte buffers at the guard, and short-buffer misuse
	for _, accel := range []bool{true, false} {
		if accel && !asmOK {
			continue
		}
		sm4.VerifSetCandoAsm(accel)
		blk, _ := sm4.NewCipher(c.rng.Bytes(16))
		sm4.VerifSetCandoAsm(asmOK)
		for _, op := range []string{"Encrypt", "Decrypt"} {
			f := blk.Encrypt
			if op == "Decrypt" {
				f = blk.Decrypt
			}
			src, dst := gIn.right(16), gDst.right(16)
			report(fmt.Sprintf("block/%s/accel=%v/exact-right", op, accel), "guard block exact", tryFault(func() { f(dst, src) }), "ok")
			src, dst = gIn.left(16), gDst.left(16)
			report(fmt.Sprintf("block/%s/accel=%v/exact-left", op, accel), "guard block exact", tryFault(func() { f(dst, src) }), "ok")
			for l := 0; l < 16; l++ {
				for _, which := range []string{"src", "dst"} {
					for _, capKind := range []string{"cap=len", "cap>=16"} {
						full := make([]byte, 64)
						short := full[:l:l]
						if capKind == "cap>=16" {
							short = full[:l:32]
						}
						if capKind == "cap=len" && l > 0 {
							short = gIn.right(l) // nothing mapped behind it
						}
						other := make([]byte, 16)
						cl := fmt.Sprintf("block/%s/accel=%v/short-%s/%s", op, accel, which, capKind)
						req := fmt.Sprintf("guard block-misuse op=%s accel=%v short=%s len=%d %s", op, accel, which, l, capKind)
						canary := append([]byte(nil), full[l:40]...)
						got := tryFault(func() {
							if which == "src" {
								f(other, short)
							} else {
								f(short, other)
							}
						})
						if got == "ok" {
							got = "no-panic"
							if which == "dst" && string(canary) != string(full[l:40]) && capKind == "cap>=16" {
								got = "no-panic,wrote-past-len"
							}
						}
						report(cl, req, got, "panic")
					}
				}
			}
		}
	}
	if asmOK {
		// routine level: round keys exactly 128 bytes at the guard
		rkG := newGuard(1)
		defer rkG.free()
		key := c.rng.Bytes(16)
		ref, _ := sm4.VerifNewCipherGeneric(key)
		enc, dec, _ := sm4.VerifRoundKeys(ref)
		for _, side := range []string{"right", "left"} {
			var rkb []byte
			if side == "right" {
				rkb = rkG.right(128)
			} else {
				rkb = rkG.left(128)
			}
			rk := (*[32]uint32)(unsafe.Pointer(&rkb[0]))
			*rk = enc
			for _, k := range sm4Kernels() {
				src, dst := gIn.right(16*k.n), gDst.right(16*k.n)
				cl := fmt.Sprintf("kernel/%s/rk-%s", k.name, side)
				report(cl, "guard kernel "+k.name, tryFault(func() { k.f(&rk[0], &dst[0], &src[0]) }), "ok")
				src, dst = gIn.left(16*k.n), gDst.left(16*k.n)
				report(cl+"/io-left", "guard kernel "+k.name, tryFault(func() { k.f(&rk[0], &dst[0], &src[0]) }), "ok")
			}
			// the 32-byte scratch block at the guard on either side, over nonce x aad x plaintext tail classes (the
			// scratch is used by the J0 derivation, the aad tail and the plaintext tail: seeded C11-c needs all three)
			for _, nl := range []int{12, 1, 7, 13, 16, 17, 33} {
				for _, al := range []int{0, 1, 15, 16, 17, 33} {
					for _, pl := range []int{0, 1, 15, 16, 17, 33, 255, 256, 257, 300} {
						for _, tside := range []string{"right", "left"} {
							var temp []byte
							if tside == "right" {
								temp = gKey.right(32)
							} else {
								temp = gKey.left(32)
							}
							pt, nonce, aad := gIn.right(pl), gNonce.right(nl), gAad.right(al)
							out := gDst.right(pl + 16)
							cl := fmt.Sprintf("sealAsm/temp-%s/n=%s/aad=%s/pt=%s", tside, lenClass(nl), lenClass(al), lenClass(pl))
							rq := fmt.Sprintf("guard sealAsm temp=%s nonce=%d aad=%d pt=%d", tside, nl, al, pl)
							got := tryFault(func() { sm4.VerifSealAsm(&rk[0], 16, &out[0], nonce, pt, aad, &temp[0]) })
							report(cl, rq, got, "ok")
							if got != "ok" {
								continue
							}
							ctG := append([]byte(nil), out...)
							var po *byte
							if pl > 0 {
								po = &gDst.right(pl)[0]
							}
							report("openAsm"+cl[7:], "guard openAsm"+rq[13:], tryFault(func() {
								if sm4.VerifOpenAsm(&rk[0], 16, po, nonce, ctG, aad, &temp[0]) != 1 {
									panic("tag mismatch")
								}
							}), "ok")
						}
					}
				}
			}
			for _, pl := range []int{0, 1, 16, 33, 300} {
				temp := gAad.right(32)
				pt, nonce := gIn.right(pl), gNonce.right(12)
				out := gDst.right(pl + 16)
				cl := fmt.Sprintf("sealAsm/rk-%s/pt=%s", side, lenClass(pl))
				report(cl, fmt.Sprintf("guard sealAsm rk=%s pt=%d", side, pl), tryFault(func() {
					sm4.VerifSealAsm(&rk[0], 16, &out[0], nonce, pt, nil, &temp[0])
				}), "ok")
				ct := append([]byte(nil), out...)
				ctG := gIn.right(len(ct))
				copy(ctG, ct)
				var po *byte
				if pl > 0 {
					po = &gDst.right(pl)[0]
				}
				cl = fmt.Sprintf("openAsm/rk-%s/pt=%s", side, lenClass(pl))
				report(cl, fmt.Sprintf("guard openAsm rk=%s pt=%d", side, pl), tryFault(func() {
					if sm4.VerifOpenAsm(&rk[0], 16, po, nonce, ctG, nil, &temp[0]) != 1 {
						panic("tag mismatch")
					}
				}), "ok")
			}
		}
		_ = dec
		// expandKeyAsm: key, enc, dec at the guard
		kb := gKey.right(16)
		copy(kb, key)
		encB, decB := gIn.right(128), gDst.right(128)
		report("expandKeyAsm/right", "guard expandKeyAsm", tryFault(func() {
			sm4.VerifExpandKeyAsm(&kb[0], (*uint32)(unsafe.Pointer(&encB[0])), (*uint32)(unsafe.Pointer(&decB[0])))
		}), "ok")
		kb = gKey.left(16)
		encB, decB = gIn.left(128), gDst.left(128)
		report("expandKeyAsm/left", "guard expandKeyAsm", tryFault(func() {
			sm4.VerifExpandKeyAsm(&kb[0], (*uint32)(unsafe.Pointer(&encB[0])), (*uint32)(unsafe.Pointer(&decB[0])))
		}), "ok")
		// gHashBlocks
		for _, n := range []int{1, 2, 3, 4, 7, 8, 9, 16, 33} {
			H, tag, data := gKey.right(16), gNonce.right(16), gIn.right(16*n)
			report(fmt.Sprintf("gHashBlocks/n=%d", bucket(n)), "guard gHashBlocks", tryFault(func() { sm4.VerifGHashBlocks(&H[0], &tag[0], &data[0], n) }), "ok")
		}
		for l := 1; l <= 40; l++ {
			src, dst := gIn.right(l), gDst.right(l)
			report("copyAsm", "guard copyAsm", tryFault(func() { sm4.VerifCopyAsm(&dst[0], &src[0], l) }), "ok")
		}
	}
	var _ cipher.Block
}

func init() { runners["C11"] = runC11 }
