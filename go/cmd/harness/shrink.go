package main

import (
	"strings"
)

// specRequestOf derives the specification request of a model request (same arguments).
func specRequestOf(req string) string {
	f := strings.SplitN(req, " ", 2)
	if len(f) < 2 {
		return ""
	}
	switch f[0] {
	case "sm3.hist":
		return "sm3.spechist " + f[1]
	case "sm3.sum":
		return "sm3.spec " + f[1]
	case "sm4.block", "sm4.x2":
		return "sm4.spec " + f[1]
	case "gcm.seal.spec", "gcm.open.spec":
		return req
	case "gcm.seal", "gcm.open":
		return f[0] + ".spec " + f[1]
	}
	return f[0] + ".spec " + f[1]
}

// stillFails re-runs implementation and specification on a candidate request.
func (c *Ctx) stillFails(req string) bool {
	impl, ok := implFromRequest(req)
	if !ok {
		return false
	}
	sreq := specRequestOf(req)
	if sreq == "" {
		return false
	}
	spec := c.drv.Ask(sreq)
	if spec == "bad-op" || spec == "outside-domain" || spec == "unknown-table" {
		return false
	}
	return impl != spec
}

func isHex(s string) bool {
	if len(s) == 0 || len(s)%2 != 0 {
		return false
	}
	for _, ch := range s {
		if !strings.ContainsRune("0123456789abcdef", ch) {
			return false
		}
	}
	return true
}

// shrinkRequest greedily simplifies a failing request: drops operations of a history, shortens and zeroes
// byte strings, while implementation and specification keep disagreeing.  Budgeted.
func (c *Ctx) shrinkRequest(req string) (string, bool) {
	if !c.stillFails(req) {
		return req, false
	}
	budget := 150
	try := func(cand string) bool {
		if budget <= 0 || cand == req {
			return false
		}
		budget--
		if c.stillFails(cand) {
			req = cand
			return true
		}
		return false
	}
	changed := true
	for changed && budget > 0 {
		changed = false
		f := strings.Fields(req)
		// histories: drop one operation
		if f[0] == "sm3.hist" {
			for i := len(f) - 1; i >= 1 && len(f) > 2; i-- {
				cand := strings.Join(append(append([]string{}, f[:i]...), f[i+1:]...), " ")
				if try(cand) {
					changed = true
					break
				}
			}
			if changed {
				continue
			}
		}
		for i := 1; i < len(f); i++ {
			tok, pre := f[i], ""
			if len(tok) > 2 && tok[1] == ':' {
				pre, tok = tok[:2], tok[2:]
			}
			if len(tok) > 1 && tok[0] == 'd' && isHex(tok[1:]) { // script item
				pre, tok = pre+"d", tok[1:]
			}
			if !isHex(tok) || len(tok) < 2 {
				continue
			}
			repl := func(nt string) string {
				g := append([]string{}, f...)
				g[i] = pre + nt
				if g[i] == "" {
					g[i] = "-"
				}
				return strings.Join(g, " ")
			}
			// shorten (keep lengths that protocols fix: only for sm3 / gcm payloads)
			if strings.HasPrefix(f[0], "sm3.") || (strings.HasPrefix(f[0], "gcm.") && i >= 3 && i <= 4) {
				for _, nl := range []int{len(tok) / 4 * 2, len(tok) - 2} {
					if nl >= 0 && nl < len(tok) && try(repl(tok[:nl])) {
						changed = true
						break
					}
				}
				if changed {
					break
				}
			}
			// zero the bytes
			z := strings.Repeat("0", len(tok))
			if tok != z && !strings.HasPrefix(f[0], "sm2.") && try(repl(z)) {
				changed = true
				break
			}
		}
	}
	return req, true
}
