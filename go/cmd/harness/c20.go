package main

import (
	"fmt"
	"strings"

	"github.com/bilibili/smgo/utils"
)

func implCmp(a, b []byte, l int) string {
	return try(func() string { return fmt.Sprintf("ok %d", utils.ConstantTimeCmp(a, b, l)) })
}

func implNaf(outLen int, s []byte, n, w int) string {
	return try(func() string {
		var out []int
		if outLen >= 0 {
			out = make([]int, outLen)
		}
		utils.DecomposeNAF(out, s, n, w)
		parts := make([]string, len(out))
		for i, d := range out {
			parts[i] = fmt.Sprint(d)
		}
		return "ok " + strings.Join(parts, ",")
	})
}

// specCmp: lexicographic order of the first l bytes, computed independently of the borrow chain.
func cmpClass(a, b []byte, l int) string {
	if a == nil || b == nil {
		return "nil"
	}
	if l > len(a) || l > len(b) {
		return "short"
	}
	if l <= 0 {
		return "l<=0"
	}
	i := 0
	for i < l && a[i] == b[i] {
		i++
	}
	if i == l {
		return fmt.Sprintf("eq/l%d", bucket(l))
	}
	r := "lt"
	if a[i] > b[i] {
		r = "gt"
	}
	// is the decision opposite to what the trailing bytes alone would say?
	nd := 0
	for j := 0; j < l; j++ {
		if a[j] != b[j] {
			nd++
		}
	}
	if nd == 1 {
		return fmt.Sprintf("%s/single@%d/l%d", r, i%8, bucket(l))
	}
	tail := "t="
	for j := l - 1; j > i; j-- {
		if a[j] != b[j] {
			if a[j] > b[j] {
				tail = "t>"
			} else {
				tail = "t<"
			}
			break
		}
	}
	return fmt.Sprintf("%s/p%d/%s", r, bucket(i), tail)
}

func bucket(n int) int {
	switch {
	case n <= 1:
		return n
	case n < 8:
		return 2
	case n < 31:
		return 8
	case n < 33:
		return n
	default:
		return 64
	}
}

func runC20(c *Ctx) {
	c.res.Rule = "cmp: pairs (a,b,l) — equal prefixes of every length, 0x00/0xff extremes, nil/short/negative l; class = (verdict, bucket of first differing index, order of the trailing bytes); naf: (s,n,w) with all w in 1..7 (and the rejected 0, 8), random and structured 256-bit inputs (runs of ones across byte boundaries); class = (w, top-carry, digit-count bucket, panic kind). Non-trivial = not (random equal-length inputs with verdict decided in byte 0)."
	nCmp, nNaf := 3000, 1500
	if c.tier == "thorough" {
		nCmp, nNaf = 60000, 30000
	}
	doCmp := func(a, b []byte, l int) {
		impl := implCmp(a, b, l)
		req := fmt.Sprintf("cmp %s %s %d", hexOrNil(a), hexOrNil(b), l)
		sreq := fmt.Sprintf("cmp.spec %s %s %d", hexOrNil(a), hexOrNil(b), l)
		cl := cmpClass(a, b, l)
		c.Case("utils.cmp", cl, strings.Contains(cl, "/p0/"), req)
		c.Check3("utils.cmp", cl, req, sreq, impl)
	}
	// directed
	for l := 0; l <= 40; l++ {
		a := make([]byte, l)
		b := make([]byte, l)
		doCmp(a, b, l)
		for i := 0; i < l; i++ {
			for _, pat := range [][2]byte{{0, 0xff}, {0xff, 0}, {1, 0}, {0x7f, 0x80}} {
				a := make([]byte, l)
				b := make([]byte, l)
				a[i], b[i] = pat[0], pat[1]
				// make the trailing bytes disagree with the decision
				for j := i + 1; j < l; j++ {
					a[j], b[j] = pat[1], pat[0]
				}
				doCmp(a, b, l)
			}
		}
	}
	// exactly one differing byte, everything else equal (a word-wise implementation must not lose it)
	for _, l := range []int{1, 2, 3, 4, 5, 7, 8, 9, 12, 15, 16, 17, 24, 31, 32, 33, 40, 64} {
		base := c.rng.Bytes(l)
		for i := 0; i < l; i++ {
			for _, delta := range []byte{1, 0x80, 0xff} {
				a := append([]byte(nil), base...)
				b := append([]byte(nil), base...)
				b[i] = a[i] + delta
				doCmp(a, b, l)
				doCmp(b, a, l)
			}
		}
	}
	doCmp(nil, []byte{1}, 1)
	doCmp([]byte{1}, nil, 1)
	doCmp(nil, nil, 0)
	doCmp([]byte{}, []byte{}, 0)
	doCmp([]byte{1, 2}, []byte{1, 3}, 3)
	doCmp([]byte{1, 2, 3}, []byte{1, 3}, 3)
	doCmp([]byte{1, 2}, []byte{1, 3}, -1)
	doCmp([]byte{9, 2}, []byte{1, 3}, 1)
	for i := 0; i < nCmp; i++ {
		l := c.rng.Intn(40)
		a := c.rng.Bytes(l + c.rng.Intn(3))
		b := c.rng.Bytes(l + c.rng.Intn(3))
		// long equal prefix
		p := c.rng.Intn(l + 1)
		copy(b[:p], a[:p])
		if c.rng.Intn(4) == 0 {
			for j := range a {
				a[j] = []byte{0, 0xff}[c.rng.Intn(2)]
			}
		}
		doCmp(a, b, l)
	}
	doNaf := func(outLen int, s []byte, n, w int) {
		impl := implNaf(outLen, s, n, w)
		ol := fmt.Sprint(outLen)
		if outLen < 0 {
			ol = "nil"
		}
		req := fmt.Sprintf("naf %s %s %d %d", ol, hexOrNil(s), n, w)
		sreq := fmt.Sprintf("naf.spec %s %s %d %d", ol, hexOrNil(s), n, w)
		cl := fmt.Sprintf("w%d/", w)
		if impl == "panic" {
			cl += "panic"
		} else {
			ds := strings.Split(strings.TrimPrefix(impl, "ok "), ",")
			nz := 0
			for _, d := range ds {
				if d != "0" && d != "" {
					nz++
				}
			}
			top := len(ds) > 0 && ds[len(ds)-1] == "1"
			cl += fmt.Sprintf("nz%d/top%v/n%d", nz/8, top, n)
		}
		c.Case("utils.naf", cl, false, req)
		if !(outLen == 257 && len(s) == 32 && n == 257 && w >= 1 && w <= 7) {
			sreq = "" // outside the property's domain: model only
		}
		c.Check3("utils.naf", cl, req, sreq, impl)
	}
	ones := func(from, to int) []byte { // bits [from,to) set, LE bit numbering of a 256-bit BE string
		s := make([]byte, 32)
		for i := from; i < to; i++ {
			s[31-i/8] |= 1 << (i % 8)
		}
		return s
	}
	for w := 0; w <= 8; w++ {
		doNaf(257, make([]byte, 32), 257, w)
		doNaf(257, ones(0, 256), 257, w)
		doNaf(257, ones(255, 256), 257, w)
		doNaf(257, ones(0, 1), 257, w)
		for _, r := range [][2]int{{3, 13}, {7, 9}, {6, 18}, {250, 256}, {120, 136}, {1, 255}} {
			doNaf(257, ones(r[0], r[1]), 257, w)
		}
		doNaf(256, ones(0, 256), 257, w) // out too short: panics only if the top carry is written
		doNaf(-1, ones(0, 256), 257, w)
		doNaf(257, nil, 257, w)
		doNaf(257, ones(0, 256)[:31], 257, w) // short s
		doNaf(257, ones(0, 256)[1:], 257, w)
		doNaf(300, append(ones(0, 256), 0xaa, 0x55), 257, w)
		doNaf(40, c.rng.Bytes(5), 33, w)
		doNaf(10, c.rng.Bytes(1), 9, w)
		doNaf(10, c.rng.Bytes(1), 1, w)
		doNaf(10, c.rng.Bytes(1), 0, w)
	}
	for i := 0; i < nNaf; i++ {
		w := 1 + c.rng.Intn(7)
		s := c.rng.Bytes(32)
		switch c.rng.Intn(4) {
		case 0: // runs
			s = make([]byte, 32)
			for k := 0; k < 1+c.rng.Intn(6); k++ {
				a := c.rng.Intn(256)
				b := a + 1 + c.rng.Intn(40)
				if b > 256 {
					b = 256
				}
				for j, v := range ones(a, b) {
					s[j] |= v
				}
			}
		case 1:
			for j := range s {
				s[j] = []byte{0, 0xff, 0x80, 0x01, 0x7f, 0xfe}[c.rng.Intn(6)]
			}
		}
		doNaf(257, s, 257, w)
	}
}

func init() {
	runners["C20"] = func(c *Ctx) {
		runC20(c)
		// the regenerated CT-IR of the same functions (Props/C20IR.lean: run of the IR = the hand-written model) against
		// the real code: the functional validation of the IR semantics the refinement theorems rest on
		rule := c.res.Rule
		runC20IR(c)
		c.res.Rule = rule + " || CT-IR: " + c.res.Rule
	}
	replayers["C20"] = func(c *Ctx, d Disagreement) {
		// requests are self-contained: re-run the implementation from the request line
		f := strings.Fields(d.Request)
		var impl string
		switch f[0] {
		case "cmp":
			var l int
			fmt.Sscan(f[3], &l)
			impl = implCmp(parseHexNil(f[1]), parseHexNil(f[2]), l)
		case "naf":
			var n, w int
			ol := -1
			if f[1] != "nil" {
				fmt.Sscan(f[1], &ol)
			}
			fmt.Sscan(f[3], &n)
			fmt.Sscan(f[4], &w)
			impl = implNaf(ol, parseHexNil(f[2]), n, w)
		}
		c.Case(d.Stream, d.Class, false, d.Request)
		c.Check3(d.Stream, d.Class, d.Request, d.SpecReq, impl)
	}
}

func parseHexNil(s string) []byte {
	if s == "nil" {
		return nil
	}
	if s == "-" {
		return []byte{}
	}
	b := make([]byte, len(s)/2)
	fmt.Sscanf(s, "%x", &b)
	return b
}
