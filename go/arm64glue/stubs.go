// Package arm64glue: portable Go stand-ins for the arm64 assembly kernels, so that the Go glue of the arm64
// GCM path (generated files gen_*.go, copied verbatim from /repo/sm4) can run on any machine.  Hand-written.
// The stand-ins implement the documented contract of each routine (n blocks of SM4 with the given round
// keys; XOR of n bytes; GHASH update per SP 800-38D) using the repository's own portable block function.
package arm64glue

import (
	"crypto/cipher"
	"unsafe"
)

type sm4CipherAsm struct {
	sm4Cipher
}

func newCipher(key []byte) (cipher.Block, error) {
	c := sm4CipherAsm{}
	expandKey(key, &c.enc, &c.dec)
	return &c, nil
}

func (sm4 *sm4CipherAsm) BlockSize() int { return BlockSize }

// Encrypt / Decrypt as in sm4_asm.go (after the length-check repair)
func (sm4 *sm4CipherAsm) Encrypt(dst, src []byte) {
	if len(src) < BlockSize {
		panic("crypto/sm4: input not full block")
	}
	if len(dst) < BlockSize {
		panic("crypto/sm4: output not full block")
	}
	cryptoBlockAsm(&sm4.enc[0], &dst[0], &src[0])
}

func (sm4 *sm4CipherAsm) Decrypt(dst, src []byte) {
	if len(src) < BlockSize {
		panic("crypto/sm4: input not full block")
	}
	if len(dst) < BlockSize {
		panic("crypto/sm4: output not full block")
	}
	cryptoBlockAsm(&sm4.dec[0], &dst[0], &src[0])
}

func blocksN(rk *uint32, dst, src *byte, n int) {
	keys := (*[32]uint32)(unsafe.Pointer(rk))
	s := unsafe.Slice(src, 16*n)
	d := unsafe.Slice(dst, 16*n)
	var tmp [16]byte
	for i := 0; i < n; i++ {
		cryptoBlock(s[16*i:16*i+16], tmp[:], keys)
		copy(d[16*i:], tmp[:])
	}
}

func cryptoBlockAsm(rk *uint32, dst, src *byte)   { blocksN(rk, dst, src, 1) }
func cryptoBlockAsmX2(rk *uint32, dst, src *byte) { blocksN(rk, dst, src, 2) }
func cryptoBlockAsmX4(rk *uint32, dst, src *byte) { blocksN(rk, dst, src, 4) }
func cryptoBlockAsmX8(rk *uint32, dst, src *byte) { blocksN(rk, dst, src, 8) }
func cryptoBlockAsmX16Internal(rk *uint32, dst, src, tmp *byte) {
	blocksN(rk, dst, src, 16)
}

func xorN(dst, a, b *byte, n int) {
	d, x, y := unsafe.Slice(dst, n), unsafe.Slice(a, n), unsafe.Slice(b, n)
	for i := 0; i < n; i++ {
		d[i] = x[i] ^ y[i]
	}
}

func xor256(dst, src1, src2 *byte) { xorN(dst, src1, src2, 256) }
func xor128(dst, src1, src2 *byte) { xorN(dst, src1, src2, 128) }
func xor64(dst, src1, src2 *byte)  { xorN(dst, src1, src2, 64) }
func xor32(dst, src1, src2 *byte)  { xorN(dst, src1, src2, 32) }
func xor16(dst, src1, src2 *byte)  { xorN(dst, src1, src2, 16) }

// gHashBlocks: tag = (tag xor block_i) • H for count 16-byte blocks (SP 800-38D Algorithm 1/2, bit-serial)
func gHashBlocks(H *byte, tag *byte, data *byte, count int) {
	h := unsafe.Slice(H, 16)
	t := unsafe.Slice(tag, 16)
	d := unsafe.Slice(data, 16*count)
	for i := 0; i < count; i++ {
		var x [16]byte
		for j := 0; j < 16; j++ {
			x[j] = t[j] ^ d[16*i+j]
		}
		var z, v [16]byte
		copy(v[:], h)
		for bit := 0; bit < 128; bit++ {
			if x[bit/8]>>(7-uint(bit%8))&1 == 1 {
				for j := range z {
					z[j] ^= v[j]
				}
			}
			lsb := v[15] & 1
			for j := 15; j > 0; j-- {
				v[j] = v[j]>>1 | v[j-1]<<7
			}
			v[0] >>= 1
			if lsb == 1 {
				v[0] ^= 0xe1
			}
		}
		copy(t, z[:])
	}
}

// NewAEAD builds the arm64-path AEAD (what crypto/cipher would obtain through the gcmAble hook).
func NewAEAD(key []byte, nonceSize, tagSize int) (cipher.AEAD, error) {
	if len(key) != BlockSize {
		return nil, KeySizeError(len(key))
	}
	c := &sm4CipherAsm{}
	expandKey(key, &c.enc, &c.dec)
	return c.NewGCM(nonceSize, tagSize)
}
